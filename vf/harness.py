"""Check plumbing: instances, violations, known findings, evidence, replay files (DESIGN 6)."""

from __future__ import annotations

import hashlib
import json
import os
import sys
import time
import traceback

from . import alg
from .alg import Poly
from .interp import Repo, Interp, Ctx, AnalysisError, RepoRaise, UndecidableBranch, UFun, Obj, RegionDependent
from .tens import Tens, ShapeError, Unsupported

VERIF = os.path.dirname(os.path.dirname(os.path.abspath(__file__)))
KNOWN_FILE = os.path.join(VERIF, "known_findings.json")


class AnalysisBroken(Exception):
    """the check cannot give a verdict (vanished anchor, floor not met, unsupported construct)"""


CURRENT = [None]  # the Check being evaluated (run_main reports a definite exception of repository code through it)


class Check:
    def __init__(self, prop, level, tier="quick", only_key=None, repo_root=None):
        self.prop = prop
        self.level = level
        self.tier = tier
        self.only_key = only_key
        self.t0 = time.time()
        CURRENT[0] = self
        self.repo = Repo(repo_root)
        self.instances = 0
        self.by_rule = {}
        self.violations = []
        self.known_hits = []
        self.samples = []
        self.notes = []
        self.floors = {}
        self.distinct = set()
        self.extra = {}
        self.errors = []
        self.assumptions = []
        self.rules = {}
        try:
            self.known = [k for k in json.load(open(KNOWN_FILE)) if k.get("property") == prop]
        except FileNotFoundError:
            self.known = []

    # ------------------------------------------------------------------ recording
    def rule(self, rid, text):
        self.rules[rid] = text

    def ok(self, rule, key, form=None):
        self.instances += 1
        self.by_rule.setdefault(rule, [0, 0])[0] += 1
        if form is not None:
            self.distinct.add((rule, _digest(form)))
        else:
            self.distinct.add((rule, key))

    def fail(self, rule, key, at, msg, code=None, ref=None, config=None):
        self.instances += 1
        self.by_rule.setdefault(rule, [0, 0])[1] += 1
        self.distinct.add((rule, key))
        v = {
            "rule": rule,
            "key": key,
            "at": at,
            "msg": msg,
            "code_form": None if code is None else str(code),
            "reference_form": None if ref is None else str(ref),
            "config": config,
        }
        if any(x["rule"] == rule and x["key"] == key for x in self.violations + self.known_hits):
            return  # the same construct reached again (other dimension / scenario): reported once
        for k in self.known:
            if k.get("status") == "known" and k.get("key") == key and k.get("rule", rule) == rule:
                v["known"] = k
                self.known_hits.append(v)
                return
        self.violations.append(v)

    def compare(self, rule, key, at, code, ref, config=None, what=""):
        """canonical-form comparison of code side and reference side (Poly, Tens, tuples ...)"""
        if self.only_key and key != self.only_key:
            return True
        same = _same(code, ref)
        if same:
            self.ok(rule, key, form=code)
            if len(self.samples) < 12 and _digest(code) not in {s.get("digest") for s in self.samples}:
                self.samples.append({"rule": rule, "key": key, "config": config, "canonical_form": _short(code), "digest": _digest(code)})
            return True
        self.fail(rule, key, at, what or "canonical form of the code differs from the documented formula", code=_short(code, 4000), ref=_short(ref, 4000), config=config)
        return False

    def floor(self, name, found, confirmed):
        """vacuity guard: `confirmed` is the count established by reading the code when the rule was written.  A rule
        whose anchors vanished collapses to (nearly) nothing; a refactoring that merges two call sites or drops one
        row must not stop the analysis - hence the threshold is 60 % of the confirmed count, at least 1."""
        expected_min = max(1, (confirmed * 6) // 10)
        self.floors[name] = {"found": found, "confirmed_when_written": confirmed, "expected_min": expected_min}
        if found < expected_min and not self.violations:
            # (with violations already recorded the shortfall is explained by them: rows that raised are not counted)
            raise AnalysisBroken(f"floor '{name}': found {found} < expected minimum {expected_min} (anchor vanished or enumeration broken)")

    def sample(self, s):
        if len(self.samples) < 20:
            self.samples.append(s)

    # ------------------------------------------------------------------ finishing
    def finish(self, explanation, rule_text, trusted=None, exhaustive=True):
        wall = time.time() - self.t0
        ev_dir = os.environ.get("VF_EVIDENCE_DIR") or os.path.join(VERIF, "evidence")
        os.makedirs(ev_dir, exist_ok=True)
        replay_dir = os.path.join(ev_dir, "replay", self.prop)
        lines = []
        for k in self.known_hits:
            lines.append(f"KNOWN-FINDING: property={self.prop} {k['known'].get('what', k['msg'])} [rule={k['rule']} key={k['key']}]")
        fixed = [k for k in self.known if k.get("status") == "fixed"]
        if self.violations:
            os.makedirs(replay_dir, exist_ok=True)
        for i, v in enumerate(self.violations):
            path = os.path.join(replay_dir, f"{i}.json")
            with open(path, "w") as f:
                json.dump({"property": self.prop, **v}, f, indent=1, default=str)
            lines.append(f"VIOLATION property={self.prop} replay={path} rule={v['rule']} at={v['at']} key={v['key']}: {v['msg']}")
        unmatched = [k for k in self.known if k.get("status") == "known" and not any(h["known"] is k for h in self.known_hits)]
        for k in unmatched:
            if not self.only_key:
                lines.append(f"INFO: listed known finding no longer matches anything: {k.get('key')}")
        cov = {
            "explanation": explanation,
            "rule": rule_text,
            "evaluations": self.instances,
            "distinct_nontrivial": len(self.distinct),
            "samples": [{k: v for k, v in s.items() if k != "digest"} for s in self.samples] or [{"note": "no sample recorded"}],
            "exhaustive": exhaustive,
            "rules": self.rules,
            "instances_by_rule": {r: {"held": a, "violated": b} for r, (a, b) in sorted(self.by_rule.items())},
            "floors": self.floors,
            "files_parsed": len(self.repo.files),
            "repo_digest": self.repo.digest(),
            "findings": [{k: v[k] for k in ("rule", "key", "at", "msg")} for v in self.violations],
            "known_findings_matched": [{"rule": v["rule"], "key": v["key"], "at": v["at"]} for v in self.known_hits],
            "fixed_findings_listed": [k.get("key") for k in fixed],
            "notes": self.notes,
        }
        cov.update(self.extra)
        if self.level == "translation_validation":
            cov["programs"] = self.instances
            cov["disagreements_checked"] = len(self.violations) + len(self.known_hits)
        if trusted:
            cov["trusted_base"] = trusted
        ev = {
            "property_id": self.prop,
            "tier": self.tier,
            "seed": int(os.environ.get("VERIF_SEED", "0") or 0),
            "level": self.level,
            "coverage": cov,
            "assumptions": self.assumptions,
            "wall_s": round(wall, 3),
            "violations": len(self.violations),
        }
        if not self.only_key and not os.environ.get("VF_NO_EVIDENCE"):
            with open(os.path.join(ev_dir, f"{self.prop}.json"), "w") as f:
                json.dump(ev, f, indent=1, default=str)
        for ln in lines:
            print(ln)
        held = sum(a for a, _ in self.by_rule.values())
        print(f"{self.prop}: {self.instances} rule instances, {held} held, {len(self.known_hits)} known findings, {len(self.violations)} violations, {wall:.2f}s [{self.tier}]")
        return 1 if self.violations else 0


def _same(a, b):
    if isinstance(a, Tens) and isinstance(b, Tens):
        return a.shape == b.shape and a.data == b.data
    if isinstance(a, (list, tuple)) and isinstance(b, (list, tuple)):
        return len(a) == len(b) and all(_same(x, y) for x, y in zip(a, b))
    if isinstance(a, Poly) or isinstance(b, Poly):
        try:
            return alg.as_poly(a) == alg.as_poly(b)
        except Exception:
            return False
    return a == b


def _digest(x):
    return hashlib.sha1(repr(x).encode()).hexdigest()[:16]


def _short(x, n=600):
    s = pretty(x)
    return s if len(s) <= n else s[: n - 20] + f" ...[{len(s)} chars]"


def pretty(x):
    if isinstance(x, Tens):
        return f"shape={tuple(str(d) for d in x.shape)} " + " ; ".join(f"[{i}] {e}" for i, e in enumerate(x.data))
    return str(x)


# ----------------------------------------------------------------------------- interpreter factory

N = Poly.sym("N")
L = Poly.sym("L")
DT = Poly.sym("dt")
M = Poly.sym("M")
R = Poly.sym("r")


def etdrk_stub(interp, args, kwargs):
    obj = args[0]
    names = ["dt", "linear_operator", "nonlinear_fun"]
    for n, v in zip(names, args[1:]):
        obj.f["arg_" + n] = v
    for k, v in kwargs.items():
        obj.f["arg_" + k] = v
    obj.f["dt"] = obj.f.get("arg_dt")
    return None


def etdrk_symbolic_stub(interp, args, kwargs):
    """constructor stub that leaves a *usable* integrator: every coefficient array is a fresh symbol of the
    linear operator's shape (the real coefficient formulas are C02's subject)"""
    obj = args[0]
    etdrk_stub(interp, args, kwargs)
    lin = args[2]
    n = int(obj.cls.name[-1])
    obj.f["_nonlinear_fun"] = args[3] if len(args) > 3 else kwargs.get("nonlinear_fun")
    if getattr(interp.ctx, "opaque_nonlinear", False) and obj.f["_nonlinear_fun"] is not None:
        # the stage recursion applied to a real nonlinear term blows up polynomially; the term itself is
        # interpreted separately on a symbolic state
        obj.f["real_nonlinear_fun"] = obj.f["_nonlinear_fun"]
        obj.f["_nonlinear_fun"] = UFun("Nl")
    names = {0: [], 1: ["_coef_1"], 2: ["_coef_1", "_coef_2"], 3: ["_half_exp_term"] + [f"_coef_{i}" for i in range(1, 6)], 4: ["_half_exp_term"] + [f"_coef_{i}" for i in range(1, 7)]}[n]
    for nm in ["_exp_term"] + names:
        obj.f[nm] = Tens(lin.shape, [Poly.atom(("s", f"{nm}_{j}")) for j in range(len(lin.data))])
        for j in range(len(lin.data)):
            alg.COMPLEX_ATOMS.add(("s", f"{nm}_{j}"))
    return None


def size_condition(cond):
    """the branch condition mentions nothing but grid-size symbols (N, Nold, Nnew, ...) and integer functions of them"""
    ats = [a for a in cond.all_atoms() if a[0] != "ind"]
    return bool(ats) and all((a[0] == "s" and a in alg.ASSUME_MIN) or (a[0] == "fn" and a[1] in ("mod", "floordiv")) for a in ats)


def call_forking(it, f, args, kwargs=None, max_forks=3):
    """call f; whenever a Python branch on a condition over grid sizes only is undecidable, explore BOTH outcomes.
    Returns [(assumptions, result | exception)], assumptions = tuple of (condition text, bool)."""
    out = []
    base = it.ctx.decide

    def run(assume):
        def dec(cond, node, file, fn):
            for c, v in assume:
                if cond == c:
                    return v
                if cond == 1 - c:
                    return not v
            return base(cond, node, file, fn) if base is not None else None

        it.ctx.decide = dec
        # `a % b == 0` assumed true: a // b is a / b
        it.ctx.divisible = set()
        for c, v in assume:
            for q, truth in ((c, v), (1 - c, not v)):
                if truth and len(q.t) == 1:
                    ((m, cc),) = q.t.items()
                    if cc == alg.ONE and len(m) == 1 and m[0][0][0] == "ind" and m[0][0][1] == "eq":
                        d = m[0][0][2] - m[0][0][3]
                        for a in d.atoms():
                            if a[0] == "fn" and a[1] == "mod" and d == Poly.atom(a):
                                it.ctx.divisible.add((str(a[2]), str(a[3])))
        try:
            r = it.call(f, list(args), dict(kwargs or {}))
            out.append((tuple((str(c), v) for c, v in assume), r))
        except UndecidableBranch as e:
            if not size_condition(e.cond) or len(assume) >= max_forks:
                raise
            it.ctx.decide = base
            run(assume + [(e.cond, False)])
            run(assume + [(e.cond, True)])
        except (RepoRaise, ShapeError) as e:
            out.append((tuple((str(c), v) for c, v in assume), e))
        finally:
            it.ctx.decide = base

    run([])
    return out


def generic_decide(cond, node, file, fn):
    """formula checks treat symbolic parameters as generic values: `param == constant` is False.
    (That such a Python-level branch exists at all is C06's business, not the formula checks'.)"""
    if size_condition(cond):
        return None  # a case distinction on grid sizes is not "generic vs special value": callers fork (call_forking)
    if len(cond.t) == 1:
        ((m, c),) = cond.t.items()
        if c == alg.ONE and len(m) == 1 and m[0][0][0] == "ind" and m[0][0][1] == "eq":
            return False
    one_minus = 1 - cond
    if len(one_minus.t) == 1:
        ((m, c),) = one_minus.t.items()
        if c == alg.ONE and len(m) == 1 and m[0][0][0] == "ind" and m[0][0][1] == "eq":
            return True
    return None


def new_interp(repo, parity=0, stub_etdrk=True, decide=generic_decide, extra_parity=None):
    ctx = Ctx()
    ctx.parity[("s", "N")] = parity
    alg.N_PARITY[0] = parity  # comparisons of wavenumbers with bounds use the largest stored wavenumber (N - parity)/2
    for a, p in (extra_parity or {}).items():
        ctx.parity[a] = p
    ctx.decide = decide
    it = Interp(repo, ctx)
    if stub_etdrk == "symbolic":
        for n in range(0, 5):
            ctx.stubs[f"exponax.etdrk._etdrk_{n}.ETDRK{n}.__init__"] = etdrk_symbolic_stub
    elif stub_etdrk:
        for n in range(1 if stub_etdrk == "nonlinear" else 0, 5):
            ctx.stubs[f"exponax.etdrk._etdrk_{n}.ETDRK{n}.__init__"] = etdrk_stub
    return it


def H_of(parity):
    return (N - parity) / 2 + 1


def state_hat(D, C, parity=0, name="u"):
    shape = (C,) + (N,) * (D - 1) + (H_of(parity),)
    return Tens(shape, [Poly.atom(("u", name, c, "F")) for c in range(C)], {"fourier": True})


def state_phys(D, C, name="u"):
    return Tens((C,) + (N,) * D, [Poly.atom(("u", name, c, "P")) for c in range(C)])


def loc(obj_or_fn, repo=None):
    """file:line of a FuncVal / ClassVal"""
    node = getattr(obj_or_fn, "node", None)
    mod = getattr(obj_or_fn, "module", None)
    if node is not None and mod is not None:
        return f"{mod.path}:{node.lineno}"
    return "?"


def rule_liveness(prop):
    """thorough tier, only when the property held: every mutation witness of this property (selftest/witnesses.py: one
    construct of the CURRENT tree edited in a scratch copy) must still be reported by the quick check - a rule that
    matches nothing any more passes vacuously forever.  Stale anchors and timeouts are listed, not failed."""
    from concurrent.futures import ThreadPoolExecutor

    sys.path.insert(0, VERIF)
    from selftest.witnesses import W
    from selftest.runner import run_one

    repo = os.environ.get("VF_REPO", "/repo")
    ws = [w for w in W if w["prop"] == prop and w["kind"] == "mutation"]
    res = []

    def one(w):
        try:
            return run_one(w, repo)
        except Exception as e:  # timeouts etc.
            return w, "error", f"{type(e).__name__}: {e}"

    with ThreadPoolExecutor(max_workers=int(os.environ.get("VF_JOBS", "8"))) as ex:
        for w, status, detail in ex.map(one, ws):
            res.append({"witness": w["id"], "file": w["file"], "status": "reported" if status == "ok" else status, "detail": detail[:200]})
    missed = [r for r in res if r["status"] == "MISSED"]
    reported = sum(1 for r in res if r["status"] == "reported")
    print(f"{prop}: rule liveness: {reported}/{len(res)} seeded edits of the current tree reported" + (f", not applicable (anchor changed / error): {[r['witness'] for r in res if r['status'] not in ('reported', 'MISSED')]}" if reported + len(missed) != len(res) else ""))
    if not os.environ.get("VF_NO_EVIDENCE"):
        ev_dir = os.environ.get("VF_EVIDENCE_DIR") or os.path.join(VERIF, "evidence")
        path = os.path.join(ev_dir, f"{prop}.json")
        try:
            ev = json.load(open(path))
            ev["coverage"]["rule_liveness"] = {"what": "mutation witnesses of this property applied one at a time to a scratch copy of the current tree; each must be reported by the quick check", "reported": reported, "total": len(res), "results": res}
            json.dump(ev, open(path, "w"), indent=1, default=str)
        except Exception as e:
            print(f"INFO: could not add rule liveness to the evidence: {e}")
    if missed:
        print(f"ANALYSIS-ERROR property={prop}: rule liveness: witnesses no longer reported: {[r['witness'] for r in missed]}")
        return 2
    return 0


def run_main(prop_module, argv):
    import argparse

    ap = argparse.ArgumentParser()
    ap.add_argument("--tier", default=os.environ.get("VERIF_TIER", "quick"))
    ap.add_argument("--replay")
    args = ap.parse_args(argv)
    only = None
    if args.replay:
        only = json.load(open(args.replay)).get("key")
    try:
        tier = args.tier if args.tier in ("quick", "thorough") else "quick"
        rc = prop_module.run(tier=tier, only_key=only)
        if rc == 0 and tier == "thorough" and not only and not os.environ.get("VF_NO_LIVENESS"):
            rc = rule_liveness(prop_module.PROP)
        return rc
    except AnalysisBroken as e:
        print(f"ANALYSIS-ERROR property={prop_module.PROP}: {e}")
        return 2
    except (RepoRaise, ShapeError, RegionDependent) as e:
        if isinstance(e, RegionDependent) and CURRENT[0] is not None:
            ck = CURRENT[0]
            at = f"{e.file}:{getattr(e.node, 'lineno', '?')}"
            ck.rule("no-value-range-dispatch", "a constructor must not build structurally different steppers for different value ranges of a float parameter: no documented formula has such a case distinction (and a traced parameter always takes one branch)")
            ck.fail("no-value-range-dispatch", f"{e.cls.qual}#{e.cond}", at, f"{e.cls.name}: the Python branch on {e.cond} in {e.fn} builds different objects on the two sides ({'; '.join(e.diff)[:300]}): the class cannot equal its documented formula on both value ranges")
            return ck.finish(explanation="ABORTED: value-range dependent construction reported. " + str(e)[:300], rule_text="constructor forked on both outcomes of a parameter-range branch; the two objects were compared field by field", exhaustive=False)
        # the interpreted repository code itself raises (an explicit raise, a call that does not fit the callee's
        # signature, an out-of-range index, arrays that cannot be combined, a division by an exact zero) in a
        # configuration the property quantifies over and outside every rule that expects a rejection: definite
        ck = CURRENT[0]
        if ck is None:
            print(f"ANALYSIS-ERROR property={prop_module.PROP}: {type(e).__name__}: {e}")
            return 2
        if isinstance(e, RepoRaise):
            at = f"{e.file}:{getattr(e.node, 'lineno', '?')}"
            what = f"{e.exc_name}: {e.message}" if e.message else e.exc_name
        else:
            lc = getattr(e, "_loc", None)
            at = f"{lc[0]}:{lc[1]}" if lc else "?"
            what = f"shape error: {e}"
        ck.rule("no-raise", "outside the rules that expect a rejection, the interpreted code raises nothing in the configurations the property quantifies over")
        ck.fail("no-raise", f"{at}#{what[:80]}", at, f"the code raises in a configuration the property covers: {what[:300]}")
        return ck.finish(
            explanation="ABORTED: the interpreted repository code raised before the rules of this check could be evaluated; the raise itself is reported. " + str(e)[:300],
            rule_text="abstract interpretation reached a definite exception in repository code",
            exhaustive=False,
        )
    except (AnalysisError, Unsupported, ShapeError, alg.AlgError, UndecidableBranch, RepoRaise) as e:
        print(f"ANALYSIS-ERROR property={prop_module.PROP}: {type(e).__name__}: {e}")
        if os.environ.get("VF_DEBUG"):
            traceback.print_exc()
        return 2
    except Exception as e:  # checker bug: never a verdict
        print(f"ANALYSIS-ERROR property={prop_module.PROP}: checker exception {type(e).__name__}: {e}")
        traceback.print_exc()
        return 2
