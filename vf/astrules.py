"""Syntactic rules over the repository's syntax trees (banned constructs, call-site enumeration)."""

from __future__ import annotations

import ast

AD_BANNED_CALLS = {
    "stop_gradient": "blocks the derivative",
    "round": "piecewise constant: zero derivative",
    "rint": "piecewise constant: zero derivative",
    "floor": "piecewise constant: zero derivative",
    "ceil": "piecewise constant: zero derivative",
    "trunc": "piecewise constant: zero derivative",
    "sign": "piecewise constant: zero derivative",
    "argmax": "integer valued: not differentiable",
    "argmin": "integer valued: not differentiable",
    "argsort": "integer valued: not differentiable",
    "while_loop": "not reverse-mode differentiable",
    "pure_callback": "opaque to AD",
    "io_callback": "opaque to AD",
    "custom_jvp": "hand-written derivative rule needs review",
    "custom_vjp": "hand-written derivative rule needs review",
}

PRECISION_NAMES = {"float16", "float32", "float64", "bfloat16", "complex64", "complex128", "half", "single", "double", "csingle", "cdouble"}


def qual_functions(tree):
    """yield (qualified name, FunctionDef node)"""
    out = []

    def rec(node, prefix):
        for ch in ast.iter_child_nodes(node):
            if isinstance(ch, ast.ClassDef):
                rec(ch, prefix + ch.name + ".")
            elif isinstance(ch, (ast.FunctionDef, ast.AsyncFunctionDef)):
                out.append((prefix + ch.name, ch))
                rec(ch, prefix + ch.name + ".<locals>.")
            else:
                rec(ch, prefix)

    rec(tree, "")
    return out


def dotted(n):
    try:
        return ast.unparse(n)
    except Exception:
        return ""


def ad_banned(tree, coercions=True):
    """[(lineno, construct, reason)]; coercions=False leaves float(x) / int(x) to a value-aware rule (the syntactic one
    cannot tell int(order) from int(dt))"""
    out = []
    for n in ast.walk(tree):
        if isinstance(n, ast.Call):
            f = dotted(n.func)
            last = f.split(".")[-1]
            root = f.split(".")[0]
            if last in AD_BANNED_CALLS and (root in ("jnp", "jax", "lax", "np", "numpy") or f == last):
                if last == "round" and f == "round":
                    continue
                out.append((n.lineno, f, AD_BANNED_CALLS[last]))
            if root in ("np", "numpy") and last not in AD_BANNED_CALLS:
                out.append((n.lineno, f, "numpy call: leaves the traced / differentiated computation"))
            if last == "astype" and n.args and dotted(n.args[0]) in ("int", "bool", "jnp.int32", "jnp.int64", "jnp.bool_"):
                out.append((n.lineno, f + f"({dotted(n.args[0])})", "integer / boolean cast: zero derivative"))
            if coercions and f in ("float", "int") and n.args and not isinstance(n.args[0], ast.Constant):
                out.append((n.lineno, f + "(...)", "python coercion of a (possibly traced / differentiated) value"))
            if last in ("item", "tolist") and isinstance(n.func, ast.Attribute):
                out.append((n.lineno, f, "leaves the traced computation"))
        if isinstance(n, (ast.FunctionDef, ast.ClassDef)):
            for d in n.decorator_list:
                dd = dotted(d)
                if dd.split(".")[-1].split("(")[0] in ("custom_jvp", "custom_vjp"):
                    out.append((n.lineno, "@" + dd, AD_BANNED_CALLS["custom_jvp"]))
    return out


def precision_pins(tree):
    """[(lineno, construct, reason)]"""
    out = []
    for n in ast.walk(tree):
        if isinstance(n, ast.Attribute) and n.attr in PRECISION_NAMES and dotted(n.value) in ("jnp", "np", "numpy", "jax.numpy"):
            out.append((n.lineno, dotted(n), "hard-coded floating / complex width"))
        if isinstance(n, ast.Constant) and isinstance(n.value, str) and n.value in PRECISION_NAMES:
            out.append((n.lineno, repr(n.value), "hard-coded dtype string"))
        if isinstance(n, ast.Call) and dotted(n.func) in ("jax.config.update", "config.update"):
            out.append((n.lineno, dotted(n.func), "library code changes the session's JAX configuration"))
        if isinstance(n, ast.keyword) and n.arg == "dtype":
            v = dotted(n.value)
            ok = v == "bool" or v.endswith(".dtype") or v in ("None",)
            if not ok and not any(p in v for p in PRECISION_NAMES):
                out.append((n.value.lineno, f"dtype={v}", "dtype that is neither bool nor derived from an input's .dtype"))
    return out


def calls_named(tree, names):
    out = []
    for n in ast.walk(tree):
        if isinstance(n, ast.Call):
            f = dotted(n.func)
            if f.split(".")[-1] in names:
                out.append((n.lineno, f, n))
    return out
