"""Enumeration of the public API from the package's own `__all__` lists and symbolic construction of
steppers (DESIGN 2.1 "public-API enumeration", 2.4 "configurations")."""

from __future__ import annotations

import ast
import itertools

from .alg import Poly
from .interp import ClassVal, FuncVal, Obj, RepoRaise, ModuleVal, AnalysisError, UndecidableBranch, RegionDependent
from .harness import N, L, DT, M, R, AnalysisBroken
from .tens import Tens


def all_list(it, modname):
    m = it.module(modname)
    try:
        names = m.env.get("__all__")
    except KeyError:
        raise AnalysisBroken(f"{modname} has no __all__")
    out = []
    for n in names:
        try:
            out.append((n, m.env.get(n)))
        except KeyError:
            raise AnalysisBroken(f"{modname}.__all__ names {n} which is not defined")
    return out


def base_stepper(it):
    return it.module("exponax._base_stepper").env.get("BaseStepper")


def exported_steppers(it):
    """[(public name, ClassVal)] of every exported BaseStepper subclass"""
    base = base_stepper(it)
    out = []
    seen = set()
    for mod in ("exponax.stepper", "exponax.stepper.generic", "exponax.stepper.reaction"):
        for n, v in all_list(it, mod):
            if isinstance(v, ClassVal) and v.is_subclass(base) and v is not base and v not in seen:
                seen.add(v)
                out.append((f"{mod}.{n}", v))
    return out


def init_params(cls):
    """(positional names, {kwonly name: (annotation source, default node)}) of the resolved __init__"""
    f = cls.find("__init__")
    if f is None:
        return [], {}, {}, {}
    a = f.node.args
    pos = [p.arg for p in a.args][1:]
    pos_def = dict(zip([p.arg for p in a.args][len(a.args) - len(a.defaults) :], a.defaults))
    kw = {}
    for p, d in zip(a.kwonlyargs, a.kw_defaults):
        kw[p.arg] = (ast.unparse(p.annotation) if p.annotation is not None else "", d)
    posann = {p.arg: (ast.unparse(p.annotation) if p.annotation is not None else "") for p in a.args}
    return pos, kw, pos_def, posann


TUPLE_LEN_DEFAULT = 5

SYMBOL_OVERRIDES = {
    "num_circle_points": M,
    "circle_radius": R,
    "injection_mode": Poly.sym("kinj"),
}


def symbolic_kwargs(cls, overrides=None, tuple_len=None, skip=()):
    """symbolic value for every keyword-only constructor parameter (floats -> symbols, tuples ->
    symbolic tuples, bools / order keep their defaults unless overridden)"""
    pos, kw, pos_def, posann = init_params(cls)
    out = {}
    overrides = overrides or {}
    for name, (ann, d) in kw.items():
        if name in overrides:
            out[name] = overrides[name]
            continue
        if name in skip:
            continue
        if name in SYMBOL_OVERRIDES:
            out[name] = SYMBOL_OVERRIDES[name]
            continue
        a = ann.replace(" ", "")
        if a.startswith("tuple[float,float,float]"):
            out[name] = tuple(Poly.sym(f"{name}_{i}") for i in range(3))
        elif a.startswith("tuple[float,...]"):
            n = (tuple_len or {}).get(name, TUPLE_LEN_DEFAULT) if isinstance(tuple_len, dict) else (tuple_len or TUPLE_LEN_DEFAULT)
            out[name] = tuple(Poly.sym(f"{name}_{i}") for i in range(n))
        elif a.startswith("tuple[float,float]"):
            out[name] = tuple(Poly.sym(f"{name}_{i}") for i in range(2))
        elif a in ("bool", "int", "str"):
            continue
        elif a == "float" or "Float[" in a or a == "":
            if a == "" and isinstance(d, ast.Constant) and not isinstance(d.value, float):
                continue
            out[name] = Poly.sym(name)
        else:
            continue
    return out


def positional_args(cls, D):
    pos, kw, pos_def, posann = init_params(cls)
    vals = []
    for p in pos:
        if p == "num_spatial_dims":
            vals.append(D)
        elif p == "domain_extent":
            vals.append(L)
        elif p == "num_points":
            vals.append(N)
        elif p == "dt":
            vals.append(DT)
        else:
            raise AnalysisBroken(f"unexpected positional constructor parameter {p} of {cls.name}")
    return vals


def as_traced(v):
    """what eqx.filter_vmap / filter_jit hand to the constructor for a float leaf: a 0-d array"""
    if isinstance(v, Poly):
        return Tens.scalar(v)
    if isinstance(v, tuple):
        return tuple(as_traced(x) for x in v)
    if isinstance(v, list):
        return [as_traced(x) for x in v]
    return v


def build(it, cls, D, **overrides):
    traced = overrides.pop("_traced", False)
    kwargs = symbolic_kwargs(cls, overrides.pop("_overrides", None), overrides.pop("_tuple_len", None))
    kwargs.update(overrides)
    pos = positional_args(cls, D)
    if traced:
        kwargs = {k: (as_traced(v) if k not in ("num_circle_points", "injection_mode") else v) for k, v in kwargs.items()}
        pos = [as_traced(p) if (isinstance(p, Poly) and p != N) else p for p in pos]
    return construct(it, cls, pos, kwargs)


def construct(it, cls, pos, kwargs):
    """call a constructor; a Python branch on the value range of a float parameter forks (see _fork_on_region)"""
    try:
        return it.call(cls, pos, kwargs)
    except UndecidableBranch as e:
        reg = param_region(e.cond)
        if reg is None:
            raise
        return _fork_on_region(it, cls, pos, kwargs, e, reg)


def param_region(cond):
    """(parameter symbol, op, constant) if cond is the indicator of `param <= c` / `param < c` (or its negation)
    for one scalar symbol: a Python-level case distinction on the *value range* of a constructor parameter"""
    from . import alg

    for q in (cond, 1 - cond):
        if len(q.t) != 1:
            continue
        ((m, c),) = q.t.items()
        if c == alg.ONE and len(m) == 1 and m[0][1] == 1 and m[0][0][0] == "ind" and m[0][0][1] in ("le", "lt"):
            d = m[0][0][2] - m[0][0][3]
            ats = d.all_atoms()
            if len(ats) == 1 and next(iter(ats))[0] == "s":
                return (next(iter(ats))[1], m[0][0][1], str(d))
    return None


def _fork_on_region(it, cls, pos, kwargs, e, reg):
    """no documented formula distinguishes value ranges of a coefficient: construct under both outcomes of the
    branch; identical objects -> the distinction is immaterial (one of them is returned), different objects -> the
    class cannot equal one documented formula on both ranges (reported through RegionDependent)"""
    variants = []
    key, nkey = e.cond, 1 - e.cond
    base = it.ctx.decide
    for choice in (False, True):

        def dec(cond, node, file, fn, _c=choice):
            if cond == key:
                return _c
            if cond == nkey:
                return not _c
            return base(cond, node, file, fn) if base is not None else None

        it.ctx.decide = dec
        try:
            variants.append(it.call(cls, pos, kwargs))
        except RepoRaise as r:
            if r.exc_name != "ValueError":
                raise
            variants.append(r)  # a range check that rejects one side with ValueError: input validation
        finally:
            it.ctx.decide = base
    raised = [v for v in variants if isinstance(v, RepoRaise)]
    if len(raised) == 2:
        raise raised[0]
    if len(raised) == 1:
        return [v for v in variants if not isinstance(v, RepoRaise)][0]
    diff = obj_diff(variants[0], variants[1])
    if diff and getattr(it.ctx, "region_strict", False):
        raise RegionDependent(cls, e.cond, e.node, e.file, e.fn, diff)
    # checks that do not own this class's formula continue with the branch a traced parameter takes
    return variants[0]


def obj_diff(a, b, path="", seen=None, out=None, limit=6):
    out = [] if out is None else out
    seen = set() if seen is None else seen
    if len(out) >= limit:
        return out
    if isinstance(a, Obj) and isinstance(b, Obj):
        if (id(a), id(b)) in seen:
            return out
        seen.add((id(a), id(b)))
        if a.cls.qual != b.cls.qual:
            out.append(f"{path or 'object'}: {a.cls.name} vs {b.cls.name}")
            return out
        for k in sorted(set(a.f) | set(b.f)):
            if k not in a.f or k not in b.f:
                out.append(f"{path}.{k}: present in one variant only")
            else:
                obj_diff(a.f[k], b.f[k], f"{path}.{k}", seen, out, limit)
        return out
    if isinstance(a, (tuple, list)) and isinstance(b, (tuple, list)):
        if len(a) != len(b):
            out.append(f"{path}: length {len(a)} vs {len(b)}")
            return out
        for i, (x, y) in enumerate(zip(a, b)):
            obj_diff(x, y, f"{path}[{i}]", seen, out, limit)
        return out
    if isinstance(a, Tens) and isinstance(b, Tens):
        if tuple(map(str, a.shape)) != tuple(map(str, b.shape)) or list(a.data) != list(b.data):
            out.append(f"{path}: arrays differ")
        return out
    if type(a) is not type(b) and not (isinstance(a, (int, Poly)) and isinstance(b, (int, Poly))):
        out.append(f"{path}: {type(a).__name__} vs {type(b).__name__}")
        return out
    try:
        if a != b and not (hasattr(a, "node") and hasattr(b, "node")):
            out.append(f"{path}: values differ")
    except Exception:
        pass
    return out


def allowed_dims(it, cls, **kw):
    """dimensions in {1,2,3} the constructor accepts (a dominating ValueError excludes the others)"""
    ok = []
    rejected = {}
    first = None
    for D in (1, 2, 3):
        try:
            build(it, cls, D, **kw)
            ok.append(D)
        except RepoRaise as e:
            if e.exc_name == "ValueError":
                rejected[D] = f"{e.file}:{getattr(e.node, 'lineno', '?')}"
                first = first or e
            else:
                raise
    if not ok and first is not None:
        # a public class that rejects every dimension: its own ValueError is the report (no-raise policy)
        raise first
    return ok, rejected


def bool_flags(cls):
    pos, kw, pos_def, posann = init_params(cls)
    return [n for n, (ann, d) in kw.items() if ann.replace(" ", "") == "bool"]


def flag_rows(cls):
    flags = bool_flags(cls)
    for combo in itertools.product([False, True], repeat=len(flags)):
        yield dict(zip(flags, combo))


def stepper_forms(it, cls, D, parity, name="u", **kw):
    """construct the stepper symbolically (ETDRK1-4 stubbed) and return its canonical pieces"""
    from .harness import state_hat

    o = build(it, cls, D, **kw)
    integ = o.f.get("_integrator")
    if not isinstance(integ, Obj):
        raise AnalysisBroken(f"{cls.name}: no integrator object")
    lin = integ.f.get("arg_linear_operator")
    if lin is None:
        lin = integ.f.get("linear_operator")
    nf = integ.f.get("arg_nonlinear_fun")
    C = o.f.get("num_channels")
    out = None
    u = state_hat(D, C, parity, name)
    if nf is not None:
        out = it.call(nf, [u])
    return {"obj": o, "L": lin, "N": out, "C": C, "u": u, "nf": nf, "integrator": integ.cls.name, "dt": o.f.get("dt")}
