"""Unrolling of the structural Terms produced for scan-based utilities (C14).

`unroll(value, env)` evaluates a Term tree for a *concrete* number of iterations: scan nodes are
executed as the left fold they denote (trusted semantics of jax.lax.scan), placeholders of the scan
body are substituted, list-like constructions (expand_dims/concatenate/repeat on the leading axis)
become python lists.  The stepper stays uninterpreted, so the result is a tree of nested
applications that can be compared with the naive loop."""

from __future__ import annotations

import ast

from .interp import Term, KeyVal, freeze
from .alg import Poly
from .tens import Tens
from . import jnpops


class Stack:
    """a leading time axis given entry by entry"""

    def __init__(self, items):
        self.items = list(items)

    def __eq__(self, o):
        return isinstance(o, Stack) and self.items == o.items

    def __repr__(self):
        return "Stack" + repr(self.items)


def thaw(x):
    if isinstance(x, tuple) and x and x[0] == "list":
        return [thaw(y) for y in x[1:]]
    if isinstance(x, tuple) and x and x[0] == "dict":
        return {k: thaw(v) for k, v in x[1:]}
    if isinstance(x, tuple) and x and x[0] == "slice":
        return slice(*[thaw(y) for y in x[1:]])
    if isinstance(x, tuple):
        return tuple(thaw(y) for y in x)
    return x


def subst(x, mapping):
    """replace placeholder Terms / KeyVal lineage prefixes"""
    if isinstance(x, Term):
        if x in mapping:
            return mapping[x]
        return Term(x.op, *[subst(thaw(a), mapping) for a in x.args])
    if isinstance(x, KeyVal):
        for ph, val in mapping.items():
            if isinstance(ph, KeyVal) and x.lineage[: len(ph.lineage)] == ph.lineage:
                if not isinstance(val, KeyVal):
                    raise ValueError("key placeholder replaced by a non-key")
                return KeyVal(val.lineage + x.lineage[len(ph.lineage) :])
        return x
    if isinstance(x, list):
        return [subst(y, mapping) for y in x]
    if isinstance(x, tuple):
        return tuple(subst(y, mapping) for y in x)
    if isinstance(x, dict):
        return {k: subst(v, mapping) for k, v in x.items()}
    if isinstance(x, Stack):
        return Stack([subst(y, mapping) for y in x.items])
    return x


LEAF_ROWS = 2  # leading length given to a structural leaf when the order of its rows matters


def _num(x, n_env):
    if isinstance(x, Poly):
        v = x
        for name, val in n_env.items():
            v = v.subs({("s", name): Poly.const(val)})
        k = v.as_number()
        if k is None:
            raise ValueError(f"cannot make {x} concrete")
        return int(k)
    return int(x)


def unroll(x, n_env, interp=None):
    """n_env: {'n': 3, ...} concrete values for the symbolic counts"""
    if isinstance(x, list):
        return [unroll(y, n_env, interp) for y in x]
    if isinstance(x, tuple):
        return tuple(unroll(y, n_env, interp) for y in x)
    if isinstance(x, dict):
        return {k: unroll(v, n_env, interp) for k, v in x.items()}
    if isinstance(x, Stack):
        return Stack([unroll(y, n_env, interp) for y in x.items])
    if not isinstance(x, Term):
        return x
    op = x.op
    a = [thaw(y) for y in x.args]
    if op in ("scan_final", "scan_stack"):
        body, init, xs, length, leaf = a
        sid, c2, y = [thaw(z) for z in body.args]
        init_u = unroll(init, n_env, interp)
        xs_u = unroll(xs, n_env, interp)
        if length is not None:
            k = _num(length, n_env)
        else:
            st = _first_stack(xs_u)
            if st is None:
                raise ValueError("scan without length over non-stack xs")
            k = len(st.items)
        carry = init_u
        ys = []
        for i in range(k):
            mapping = {}
            _bind(mapping, sid, "carry", carry)
            _bind(mapping, sid, "x", _index(xs_u, i))
            carry = unroll(subst(c2, mapping), n_env, interp)
            ys.append(unroll(subst(y, mapping), n_env, interp))
        if op == "scan_final":
            return _leaf(carry, leaf)
        return _stack_leaf(ys, leaf)
    if op == "jnp.expand_dims":
        args, kw = a
        if kw.get("axis", args[1] if len(args) > 1 else None) == 0:
            return Stack([unroll(args[0], n_env, interp)])
    if op == "jnp.repeat":
        args, kw = a
        inner = unroll(args[0], n_env, interp)
        if kw.get("axis", args[2] if len(args) > 2 else None) == 0 and isinstance(inner, Stack) and len(inner.items) == 1:
            return Stack(inner.items * _num(args[1], n_env))
        if kw.get("axis", args[2] if len(args) > 2 else None) == 0 and isinstance(inner, Term) and not inner.args:
            # repeat along the leading axis of a LEAF: every row k times.  A leaf is modelled with two rows
            # (the smallest leading length for which row order matters); rows are tokens ("row", leaf, j)
            k = _num(args[1], n_env)
            rows = []
            for j in range(LEAF_ROWS):
                rows += [Term("row", inner, j)] * k
            return Term("rows", inner, tuple(rows))
    if (op == "method" and len(a) >= 3 and a[1] == "reshape") or op == "jnp.reshape":
        # rows(...).reshape((k, *shape(leaf))): regroup the row sequence into k blocks of the leaf's leading length
        if op == "method":
            src, shp = unroll(a[0], n_env, interp), (a[2][0] if len(a[2]) == 1 else tuple(a[2]))
        else:
            args, kw = a
            src, shp = unroll(args[0], n_env, interp), kw.get("shape", kw.get("newshape", args[1] if len(args) > 1 else None))
        if isinstance(src, Term) and src.op == "rows":
            leaf, rows = src.args
            lead = _lead_dim(shp)
            if lead is not None and _rest_is_shape_of(shp, leaf):
                k = _num(lead, n_env)
                if k * LEAF_ROWS == len(rows):
                    groups = []
                    for i in range(k):
                        g = tuple(rows[i * LEAF_ROWS : (i + 1) * LEAF_ROWS])
                        whole = tuple(Term("row", leaf, j) for j in range(LEAF_ROWS))
                        groups.append(leaf if g == whole else Term("rows", leaf, g))
                    return Stack(groups)
    if op == "jnp.broadcast_to":
        # broadcast_to(expand_dims(x, 0), (k,) + shape(x))  ==  k copies of x along a new leading axis
        args, kw = a
        inner = unroll(args[0], n_env, interp)
        shp = kw.get("shape", args[1] if len(args) > 1 else None)
        lead = _lead_dim(shp)
        if isinstance(inner, Stack) and len(inner.items) == 1 and lead is not None:
            return Stack(inner.items * _num(lead, n_env))
        if lead is not None and not isinstance(inner, Stack) and _rest_is_shape_of(shp, args[0]):
            # broadcast_to(x, (k, *shape(x))): k copies of the leaf x along a new leading axis
            return Stack([inner] * _num(lead, n_env))
    if op == "jnp.concatenate":
        args, kw = a
        parts = [unroll(p, n_env, interp) for p in args[0]]
        if kw.get("axis", args[1] if len(args) > 1 else 0) == 0 and all(isinstance(p, Stack) for p in parts):
            out = []
            for p in parts:
                out.extend(p.items)
            return Stack(out)
    if op == "getitem":
        base = unroll(a[0], n_env, interp)
        if isinstance(base, Stack) and isinstance(a[1], int):
            return base.items[a[1]]
    if op == "binop" and interp is not None:
        l, r = unroll(a[1], n_env, interp), unroll(a[2], n_env, interp)
        if not isinstance(l, (Term, Stack)) and not isinstance(r, (Term, Stack)):
            node = {"add": ast.Add(), "sub": ast.Sub(), "mul": ast.Mult(), "div": ast.Div(), "pow": ast.Pow()}[a[0]]
            return jnpops.binop(interp, node, l, r, None)
        return Term("binop", a[0], l, r)
    return Term(op, *[unroll(y, n_env, interp) for y in a])


def _lead_dim(shp):
    """first entry of a shape written as (k, ...) or (k,) + <anything>"""
    shp = thaw(shp) if isinstance(shp, tuple) and shp and shp[0] in ("list", "tuple", "dict") else shp
    if isinstance(shp, (tuple, list)) and shp and not isinstance(shp[0], (tuple, list, Term)):
        return shp[0]
    if isinstance(shp, Term) and shp.op == "binop" and shp.args[0] == "add":
        return _lead_dim(shp.args[1])
    return None


def _rest_is_shape_of(shp, operand):
    """the shape is (k, *shape(operand)) or (k,) + shape(operand)"""
    shp = thaw(shp) if isinstance(shp, tuple) and shp and shp[0] in ("list", "tuple", "dict") else shp

    def is_shape(t):
        return isinstance(t, Term) and t.op == "jnp.shape" and thaw(t.args[0])[0] == thaw(operand) if isinstance(t, Term) and t.op == "jnp.shape" else False

    try:
        if isinstance(shp, (tuple, list)) and len(shp) == 2 and isinstance(shp[1], Term) and shp[1].op == "star":
            return is_shape(shp[1].args[0])
        if isinstance(shp, Term) and shp.op == "binop" and shp.args[0] == "add":
            return is_shape(shp.args[2])
    except Exception:
        return False
    return False


def _first_stack(x):
    if isinstance(x, Stack):
        return x
    if isinstance(x, (list, tuple)):
        for y in x:
            s = _first_stack(y)
            if s is not None:
                return s
    if isinstance(x, dict):
        for y in x.values():
            s = _first_stack(y)
            if s is not None:
                return s
    return None


def _index(xs, i):
    if xs is None:
        return None
    if isinstance(xs, Stack):
        return xs.items[i]
    if isinstance(xs, tuple):
        return tuple(_index(y, i) for y in xs)
    if isinstance(xs, list):
        return [_index(y, i) for y in xs]
    if isinstance(xs, dict):
        return {k: _index(v, i) for k, v in xs.items()}
    return Term("getitem", xs, i)


def _bind(mapping, sid, kind, value):
    """placeholders are numbered in tree_leaves order"""
    ctr = [0]

    def rec(v):
        if v is None:
            return
        if isinstance(v, (list, tuple)):
            for y in v:
                rec(y)
            return
        if isinstance(v, dict):
            for k in sorted(v):
                rec(v[k])
            return
        ctr[0] += 1
        if isinstance(v, KeyVal):
            mapping[KeyVal(((kind, sid, ctr[0]),))] = v
        else:
            mapping[Term(kind, sid, ctr[0])] = v

    rec(value)


def _leaf(tree, idx):
    leaves = jnpops.tree_leaves(tree)
    return leaves[idx - 1]


def _stack_leaf(ys, idx):
    return Stack([jnpops.tree_leaves(y)[idx - 1] for y in ys])
