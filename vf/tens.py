"""Mini nd-array of algebra elements with symbolic axes (DESIGN 2.4 "Tens").

An axis has either a concrete integer length (channel / dimension / derivative axes: the entries
along it are stored one by one) or a symbolic length (grid axes, contour axis, time axis: a single
representative entry stands for every position).  numpy broadcasting and basic indexing rules are
implemented on the concrete axes; symbolic axes only support what is pointwise along them.
"""

from __future__ import annotations

import itertools
from fractions import Fraction as Fr

from .alg import Poly, as_poly, AlgError


class ShapeError(Exception):
    pass


class Unsupported(Exception):
    pass


def dim_norm(d):
    if isinstance(d, Poly):
        n = d.as_number()
        if n is not None:
            if isinstance(n, Fr):
                raise ShapeError(f"non-integer axis length {n}")
            return int(n)
        return d
    if isinstance(d, bool):
        return int(d)
    if isinstance(d, int):
        return d
    if isinstance(d, Fr) and d.denominator == 1:
        return int(d)
    raise ShapeError(f"bad axis length {d!r}")


def is_sym(d):
    return isinstance(d, Poly)


def cshape(shape):
    return tuple(1 if is_sym(d) else d for d in shape)


def _size(cs):
    n = 1
    for d in cs:
        n *= d
    return n


def _strides(cs):
    st = []
    n = 1
    for d in reversed(cs):
        st.append(n)
        n *= d
    return tuple(reversed(st))


class Tens:
    __slots__ = ("shape", "data", "meta")

    def __init__(self, shape, data, meta=None):
        self.shape = tuple(dim_norm(d) for d in shape)
        self.data = list(data)
        self.meta = meta or {}
        if len(self.data) != _size(cshape(self.shape)):
            raise ShapeError(f"data size {len(self.data)} does not fit shape {self.shape}")

    # -------------------------------------------------------------- basics
    @property
    def ndim(self):
        return len(self.shape)

    @staticmethod
    def scalar(p):
        return Tens((), [as_poly(p)])

    @staticmethod
    def full(shape, v):
        shape = tuple(dim_norm(d) for d in shape)
        return Tens(shape, [as_poly(v)] * _size(cshape(shape)))

    @staticmethod
    def from_nested(x):
        """nested python lists / tuples of numbers, Polys or Tens -> Tens"""
        if isinstance(x, Tens):
            return x
        if isinstance(x, (list, tuple)):
            parts = [Tens.from_nested(y) for y in x]
            if not parts:
                return Tens((0,), [])
            return stack(parts, 0)
        return Tens.scalar(x)

    def item(self):
        if len(self.data) != 1 or any(is_sym(d) for d in self.shape):
            raise ShapeError("item() of a non-scalar")
        return self.data[0]

    def map(self, f):
        return Tens(self.shape, [f(x) for x in self.data], self.meta)

    def cidx(self):
        return itertools.product(*[range(d) for d in cshape(self.shape)])

    def at(self, idx):
        st = _strides(cshape(self.shape))
        return self.data[sum(i * s for i, s in zip(idx, st))]

    def has_sym(self):
        return any(is_sym(d) for d in self.shape)

    def sym_axes(self):
        return [i for i, d in enumerate(self.shape) if is_sym(d)]

    def __repr__(self):
        return f"Tens{self.shape}{self.data}"

    def __eq__(self, o):
        return isinstance(o, Tens) and self.shape == o.shape and self.data == o.data

    def __hash__(self):
        return hash((self.shape, tuple(self.data)))


def as_tens(x):
    if isinstance(x, Tens):
        return x
    if isinstance(x, (list, tuple)):
        return Tens.from_nested(x)
    return Tens.scalar(x)


# ------------------------------------------------------------------ broadcasting


def broadcast_shapes(*shapes):
    n = max(len(s) for s in shapes)
    out = []
    for i in range(n):
        dims = []
        for s in shapes:
            j = i - (n - len(s))
            dims.append(s[j] if j >= 0 else 1)
        r = 1
        for d in dims:
            if is_sym(d):
                if is_sym(r):
                    if r != d:
                        raise ShapeError(f"incompatible symbolic axis lengths {r} vs {d} in shapes {shapes}")
                elif r == 1:
                    r = d
                else:
                    raise ShapeError(f"incompatible axis lengths {r} vs {d} in shapes {shapes}")
            else:
                if is_sym(r):
                    if d != 1:
                        raise ShapeError(f"incompatible axis lengths {r} vs {d} in shapes {shapes}")
                elif r == 1:
                    r = d
                elif d != 1 and d != r:
                    raise ShapeError(f"incompatible axis lengths {r} vs {d} in shapes {shapes}")
        out.append(r)
    return tuple(out)


def broadcast_to(t, shape):
    shape = tuple(dim_norm(d) for d in shape)
    broadcast_shapes(t.shape, shape)
    n = len(shape)
    off = n - t.ndim
    tcs = cshape(t.shape)
    st = _strides(tcs)
    data = []
    for idx in itertools.product(*[range(d) for d in cshape(shape)]):
        k = 0
        for ax in range(t.ndim):
            i = idx[ax + off]
            if tcs[ax] == 1:
                i = 0
            k += i * st[ax]
        data.append(t.data[k])
    return Tens(shape, data, t.meta)


def ewise(f, *ts):
    ts = [as_tens(t) for t in ts]
    shape = broadcast_shapes(*[t.shape for t in ts])
    bs = [broadcast_to(t, shape) if t.shape != shape else t for t in ts]
    data = [f(*xs) for xs in zip(*[b.data for b in bs])]
    meta = {}
    for t in ts:
        meta.update(t.meta)
    return Tens(shape, data, meta)


# ------------------------------------------------------------------ indexing


def normalize_index(idx, ndim):
    if not isinstance(idx, tuple):
        idx = (idx,)
    idx = list(idx)
    n_real = sum(1 for i in idx if i is not None and i is not Ellipsis)
    if Ellipsis in idx:
        p = idx.index(Ellipsis)
        if Ellipsis in idx[p + 1 :]:
            raise Unsupported("two ellipses in index")
        idx[p : p + 1] = [slice(None)] * (ndim - n_real)
    else:
        idx = idx + [slice(None)] * (ndim - n_real)
    if sum(1 for i in idx if i is not None) != ndim:
        raise ShapeError(f"too many indices for array of dimension {ndim}")
    return idx


def _as_int(x):
    if isinstance(x, bool):
        return int(x)
    if isinstance(x, int):
        return x
    if isinstance(x, Poly):
        n = x.as_number()
        if isinstance(n, int):
            return n
    if isinstance(x, Fr) and x.denominator == 1:
        return int(x)
    return None


def getitem(t, idx, sym_index=None):
    """basic indexing.  sym_index(entry, axis_position_from_right, i, length) handles an integer index
    on a symbolic axis (must return the entry at that position)"""
    idx = normalize_index(idx, t.ndim)
    # plan: for every input axis one of ('int', i) / ('slice', range) / ('symfull',) ; plus new axes
    ax = 0
    plan = []
    for it in idx:
        if it is None:
            plan.append(("new",))
            continue
        d = t.shape[ax]
        if isinstance(it, slice):
            if is_sym(d):
                if it == slice(None):
                    plan.append(("symfull", ax))
                else:
                    raise Unsupported(f"slice {it} on a symbolic axis of length {d}")
            else:
                lo, hi, st = (_as_int(x) if x is not None else None for x in (it.start, it.stop, it.step))
                for raw, val in ((it.start, lo), (it.stop, hi), (it.step, st)):
                    if raw is not None and val is None:
                        raise Unsupported(f"non-static slice bound {raw!r}")
                plan.append(("slice", ax, range(*slice(lo, hi, st).indices(d))))
        else:
            i = _as_int(it)
            if i is None:
                raise Unsupported(f"index {it!r}")
            if is_sym(d):
                plan.append(("symint", ax, i))
            else:
                if i < -d or i >= d:
                    raise ShapeError(f"index {i} out of bounds for axis of length {d}")
                plan.append(("int", ax, i % d))
        ax += 1
    out_shape = []
    iters = []
    for p in plan:
        if p[0] == "new":
            out_shape.append(1)
            iters.append([None])
        elif p[0] == "symfull":
            out_shape.append(t.shape[p[1]])
            iters.append([0])
        elif p[0] == "slice":
            out_shape.append(len(p[2]))
            iters.append(list(p[2]))
        elif p[0] == "int":
            iters.append([p[2]])
        elif p[0] == "symint":
            iters.append([0])
    st = _strides(cshape(t.shape))
    data = []
    for combo in itertools.product(*iters):
        k = 0
        for p, i in zip(plan, combo):
            if p[0] == "new":
                continue
            k += i * st[p[1]]
        e = t.data[k]
        for p in plan:
            if p[0] == "symint":
                if sym_index is None:
                    raise Unsupported("integer index on a symbolic axis")
                e = sym_index(e, t.ndim - p[1], p[2], t.shape[p[1]])
        data.append(e)
    return Tens(tuple(out_shape), data, t.meta)


# ------------------------------------------------------------------ structure ops


def stack(ts, axis=0):
    ts = [as_tens(t) for t in ts]
    if not ts:
        raise Unsupported("stack of nothing")
    shape = broadcast_shapes(*[t.shape for t in ts]) if len({t.shape for t in ts}) > 1 else ts[0].shape
    for t in ts:
        if t.shape != shape:
            raise ShapeError(f"stack of different shapes {[t.shape for t in ts]}")
    n = len(shape) + 1
    if axis < 0:
        axis += n
    ts2 = [expand_dims(t, axis) for t in ts]
    return concatenate(ts2, axis)


def concatenate(ts, axis=0):
    ts = [as_tens(t) for t in ts]
    nd = ts[0].ndim
    if nd == 0:
        raise ShapeError("zero-dimensional arrays cannot be concatenated")
    if axis < 0:
        axis += nd
    for t in ts:
        if t.ndim != nd:
            raise ShapeError("concatenate: rank mismatch")
        for a in range(nd):
            if a != axis and t.shape[a] != ts[0].shape[a]:
                raise ShapeError(f"concatenate: shapes {[x.shape for x in ts]} differ off axis {axis}")
        if is_sym(t.shape[axis]):
            raise Unsupported("concatenate along a symbolic axis")
    total = sum(t.shape[axis] for t in ts)
    shape = list(ts[0].shape)
    shape[axis] = total
    cs = cshape(shape)
    data = []
    offs = []
    o = 0
    for t in ts:
        offs.append((o, o + t.shape[axis], t))
        o += t.shape[axis]
    for idx in itertools.product(*[range(d) for d in cs]):
        i = idx[axis]
        for lo, hi, t in offs:
            if lo <= i < hi:
                j = list(idx)
                j[axis] = i - lo
                data.append(t.at(j))
                break
    meta = {}
    for t in ts:
        meta.update(t.meta)
    return Tens(shape, data, meta)


def expand_dims(t, axis):
    if isinstance(axis, (tuple, list)):
        n = t.ndim + len(axis)
        axes = sorted(a % n for a in axis)
        shape = list(t.shape)
        for a in axes:
            shape.insert(a, 1)
        return Tens(shape, t.data, t.meta)
    n = t.ndim + 1
    if axis < 0:
        axis += n
    shape = list(t.shape)
    shape.insert(axis, 1)
    return Tens(shape, t.data, t.meta)


def transpose(t, perm):
    perm = [p % t.ndim for p in perm]
    shape = tuple(t.shape[p] for p in perm)
    data = []
    for idx in itertools.product(*[range(d) for d in cshape(shape)]):
        src = [0] * t.ndim
        for o, p in enumerate(perm):
            src[p] = idx[o]
        data.append(t.at(src))
    return Tens(shape, data, t.meta)


def moveaxis(t, src, dst):
    src %= t.ndim
    dst %= t.ndim
    order = [a for a in range(t.ndim) if a != src]
    order.insert(dst, src)
    return transpose(t, order)


def reshape(t, shape):
    shape = tuple(dim_norm(d) for d in shape)
    if "flat_of" in t.meta and tuple(shape) == tuple(t.meta["flat_of"]):
        m = dict(t.meta)
        del m["flat_of"]
        return Tens(shape, t.data, m)
    # only reshapes that add / remove unit axes or permute nothing else are supported when symbolic axes exist
    a = [d for d in t.shape if not (isinstance(d, int) and d == 1)]
    b = [d for d in shape if not (isinstance(d, int) and d == 1)]
    if t.has_sym() or any(is_sym(d) for d in shape):
        if a != b:
            raise Unsupported(f"reshape {t.shape} -> {shape} mixes symbolic axes")
        return Tens(shape, t.data, t.meta)
    if -1 in shape:
        known = _size([d for d in shape if d != -1])
        shape = tuple(len(t.data) // known if d == -1 else d for d in shape)
    if _size(shape) != len(t.data):
        raise ShapeError(f"cannot reshape {t.shape} into {shape}")
    return Tens(shape, t.data, t.meta)


def reduce(t, axis, keepdims, fold, symfold, sympartial=None):
    """fold(list of entries)->entry for concrete axes; symfold(entry, [lengths])->entry for symbolic ones;
    sympartial(entry, [lengths], [positions among the symbolic axes], number of symbolic axes) for a reduction over a
    proper subset of the symbolic axes (None: unsupported)"""
    if axis is None:
        axes = list(range(t.ndim))
    else:
        raw = list(axis) if isinstance(axis, (tuple, list)) else [axis]
        for a in raw:
            if not isinstance(a, int) or not (-t.ndim <= a < max(t.ndim, 1)):
                raise ShapeError(f"axis {a} is out of bounds for an array of rank {t.ndim}")
        axes = [a % t.ndim for a in raw] if t.ndim else []
    caxes = [a for a in axes if not is_sym(t.shape[a])]
    saxes = [a for a in axes if is_sym(t.shape[a])]
    partial = bool(saxes) and set(saxes) != set(t.sym_axes())
    if partial and sympartial is None:
        raise Unsupported(f"reduction over a proper subset of the symbolic axes {saxes} of shape {t.shape}")
    cs = cshape(t.shape)
    out_shape_full = [1 if a in axes else d for a, d in enumerate(t.shape)]
    groups = {}
    for idx in itertools.product(*[range(d) for d in cs]):
        key = tuple(0 if a in caxes else i for a, i in enumerate(idx))
        groups.setdefault(key, []).append(t.at(idx))
    data = []
    for idx in itertools.product(*[range(d) for d in cshape(out_shape_full)]):
        grp = groups.get(idx, [])
        if not grp:
            raise Unsupported("reduction over a zero-length axis")
        e = fold(grp)
        if partial:
            allsym = list(t.sym_axes())
            e = sympartial(e, [t.shape[a] for a in saxes], [allsym.index(a) for a in saxes], len(allsym))
        elif saxes:
            e = symfold(e, [t.shape[a] for a in saxes])
        data.append(e)
    res = Tens(out_shape_full, data, t.meta)
    if not keepdims:
        shape = [d for a, d in enumerate(out_shape_full) if a not in axes]
        res = Tens(shape, data, t.meta)
    return res


def einsum(spec, *ops):
    ops = [as_tens(o) for o in ops]
    spec = spec.replace(" ", "")
    if "->" not in spec:
        raise Unsupported("einsum without explicit output")
    lhs, out = spec.split("->")
    ins = lhs.split(",")
    if len(ins) != len(ops):
        raise ShapeError("einsum operand count")
    letter_dim = {}
    ell_shape = None
    parsed = []
    for sub, op in zip(ins, ops):
        if "..." in sub:
            pre, post = sub.split("...")
            nell = op.ndim - len(pre) - len(post)
            if nell < 0:
                raise ShapeError(f"einsum operand rank {op.ndim} too small for '{sub}'")
            es = op.shape[len(pre) : len(pre) + nell]
            ell_shape = es if ell_shape is None else broadcast_shapes(ell_shape, es)
        else:
            pre, post = sub, ""
            nell = 0
            if op.ndim != len(sub):
                raise ShapeError(f"einsum operand rank {op.ndim} does not match '{sub}'")
        letters = list(pre) + [None] * nell + list(post)
        for l, d in zip(letters, op.shape):
            if l is None:
                continue
            if l in letter_dim and letter_dim[l] != d:
                if not (isinstance(d, int) and d == 1):
                    raise ShapeError(f"einsum size mismatch for '{l}': {letter_dim[l]} vs {d}")
            letter_dim.setdefault(l, d)
        parsed.append((pre, nell, post))
    ell_shape = tuple(ell_shape or ())
    if "..." in out:
        opre, opost = out.split("...")
    else:
        opre, opost = out, ""
        if ell_shape and any(not (isinstance(d, int) and d == 1) for d in ell_shape):
            raise Unsupported("einsum drops ellipsis axes")
    summed = [l for l in letter_dim if l not in out]
    for l in summed:
        if is_sym(letter_dim[l]):
            raise Unsupported("einsum contraction over a symbolic axis")
    out_shape = tuple(letter_dim[l] for l in opre) + (ell_shape if "..." in out else ()) + tuple(letter_dim[l] for l in opost)
    ecs = cshape(ell_shape)
    data = []
    out_letters = list(opre) + [None] * (len(ell_shape) if "..." in out else 0) + list(opost)
    for oidx in itertools.product(*[range(d) for d in cshape(out_shape)]):
        assign = {}
        eidx = []
        for l, i in zip(out_letters, oidx):
            if l is None:
                eidx.append(i)
            else:
                assign[l] = i
        if "..." not in out:
            eidx = [0] * len(ell_shape)
        total = Poly()
        for sidx in itertools.product(*[range(letter_dim[l]) for l in summed]):
            a2 = dict(assign)
            a2.update(zip(summed, sidx))
            term = Poly.const(1)
            for (pre, nell, post), op in zip(parsed, ops):
                idx = [a2[l] for l in pre]
                # align ellipsis from the right
                es = op.shape[len(pre) : len(pre) + nell]
                sub = eidx[len(eidx) - nell :] if nell else []
                for d, i in zip(cshape(es), sub):
                    idx.append(0 if d == 1 else i)
                idx += [a2[l] for l in post]
                idx = [0 if cshape(op.shape)[k] == 1 else i for k, i in enumerate(idx)]
                term = term * op.at(idx)
            total = total + term
        data.append(total)
    return Tens(out_shape, data)
