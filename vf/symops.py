"""Semantics of the few *global* operations on symbolic axes: sums/means, FFT pair, worlds, scan."""

from __future__ import annotations

from fractions import Fraction as Fr

from . import alg
from .alg import Poly, as_poly, AlgError, ONE
from . import tens as T
from .tens import Tens, Unsupported, ShapeError, is_sym

BASE_VARYING = {"k", "k1", "x", "x1", "u", "I", "F", "Fx", "Ix", "carry", "idx", "PSum", "Strided", "At0"}
SCALAR_TAGS = {"s", "num", "dc", "Idc", "Sum", "Mean", "Std", "Max", "Min", "Var", "RSum", "expc", "StdC", "MaxC", "MinC"}

_var_cache = {}


def varies(a):
    r = _var_cache.get(a)
    if r is None:
        r = _varies(a)
        _var_cache[a] = r
    return r


def _varies(a):
    t = a[0]
    if t in BASE_VARYING:
        return True
    if t in SCALAR_TAGS:
        return False
    if t == "draw":
        return a[4] == "A"
    if t == "ind" and a[1] == "dc":
        return True
    for x in a[1:]:
        if isinstance(x, Poly):
            if any(varies(b) for b in x.atoms()):
                return True
        elif isinstance(x, tuple) and x and isinstance(x[0], tuple):
            if any(varies(b) for b, _ in x if isinstance(b, tuple)):
                return True
    return False


def split_terms(p, pred):
    """yield (coef GQ, mono_without, mono_with) splitting each monomial's atoms by pred(atom)"""
    for m, c in p.t.items():
        a = tuple((x, e) for x, e in m if not pred(x))
        b = tuple((x, e) for x, e in m if pred(x))
        yield c, a, b


def place_on_axis(e, axis, D):
    def f(a):
        if a[0] == "k1":
            return Poly.atom(("k", axis, D, a[1]))
        if a[0] == "idx" and a[1] in ("lin", "ar"):
            return Poly.atom(("idx", ("grid", axis, D)))
        return None

    return alg.map_atoms(e, f)


def _total(lens):
    r = Poly.const(1)
    for ln in lens:
        r = r * as_poly(ln)
    return r


def sym_sum(e, lens):
    lens = tuple(lens)
    tot = _total(lens)
    out = Poly()
    for c, const, var in split_terms(e, varies):
        base = Poly({const: c})
        if var:
            if len(var) == 1 and var[0][0][0] == "I" and var[0][1] == 1 and len(var[0][0]) == 4:
                continue  # I[m, X] is the inverse transform WITHOUT its mean mode: it sums to zero
            if len(var) == 1 and var[0][0][0] in ("Re", "Im") and var[0][1] == 1 and base.is_real_coeffs():
                # the real / imaginary part commutes with a sum (with real weights): Sum(Re z) = Re(Sum z)
                inner = sym_sum(var[0][0][1], lens)
                out = out + base * (alg.real(inner) if var[0][0][0] == "Re" else alg.imag(inner))
                continue
            if len(var) == 1 and var[0][0][0] == "PSum" and var[0][1] == 1 and len(lens) == var[0][0][4] - len(var[0][0][2]):
                a = var[0][0]  # the remaining axes of a partial sum are summed: the whole grid sum
                out = out + base * sym_sum(a[1], tuple(a[3]) + lens)
                continue
            # the summation domain is the whole grid however its axes are grouped ((N, N) or the flattened (N^2,)):
            # only the number of points is recorded
            out = out + base * Poly.atom(("Sum", Poly({var: ONE}), (tot,) if len(lens) > 1 else lens))
        else:
            out = out + base * tot
    return out


def sym_mean(e, lens):
    return sym_sum(e, lens) / _total(lens)


def partial_sum(e, lens, axes, D):
    """sum over a proper subset `axes` (positions among the D symbolic axes) of a representative entry: linear,
    factors that do not vary along the summed axes are pulled out, the rest becomes the uninterpreted atom
    PSum[summand, axes, lens, D] (a field over the remaining axes).  Nested partial sums merge; once every axis is
    summed the result is the ordinary grid sum."""
    axes = tuple(sorted(axes))
    lens = tuple(lens)
    tot = _total(lens)

    def along(a):
        if a[0] == "k":
            return a[1] in axes
        if a[0] == "idx" and isinstance(a[1], tuple) and a[1][0] == "grid":
            return a[1][1] in axes
        if a[0] == "PSum":
            return True
        return varies(a)

    out = Poly()
    for c, const, var in split_terms(e, along):
        base = Poly({const: c})
        if not var:
            out = out + base * tot
            continue
        if len(var) == 1 and var[0][1] == 1 and var[0][0][0] == "PSum":
            a = var[0][0]
            if not set(a[2]) & set(axes):
                merged = tuple(sorted(set(a[2]) | set(axes)))
                mlens = tuple(a[3]) + lens
                if len(merged) == a[4]:
                    out = out + base * sym_sum(a[1], mlens)
                else:
                    out = out + base * Poly.atom(("PSum", a[1], merged, mlens, a[4]))
                continue
        out = out + base * Poly.atom(("PSum", Poly({var: ONE}), axes, lens, D))
    return out


def partial_mean(e, lens, axes, D):
    return partial_sum(e, lens, axes, D) / _total(tuple(lens))


def sym_stat(name, e, lens):
    if not any(varies(a) for a in e.atoms()):
        if name in ("Max", "Min"):
            return e
        if name in ("Std", "Var"):
            return Poly()
    if name in ("Max", "Min"):
        # max / min commute with adding a grid-constant: Max(f + c) = Max(f) + c
        const = Poly()
        var = Poly()
        for c_, a_, b_ in split_terms(e, varies):
            if b_:
                var = var + Poly({tuple(sorted(a_ + b_, key=lambda t: alg.mono_sortkey((t,)) if hasattr(alg, "mono_sortkey") else repr(t))): c_}) if False else var + Poly({a_: c_}) * Poly({b_: ONE})
            else:
                const = const + Poly({a_: c_})
        if not const.is_zero() and not var.is_zero():
            return sym_stat(name, var, lens) + const
    return Poly.atom((name, e, tuple(lens)))


def dc_indicator(shape, D):
    return Poly.atom(("ind", "dc", D))


# ----------------------------------------------------------------------------- worlds


def k_axes(p):
    out = {}
    for a in p.all_atoms():
        if a[0] == "k":
            out[(a[1], a[2])] = a
    return out


def is_definite(q, need_axes=None):
    """q > 0 whenever the (free) wavenumber vector is non-zero"""
    if not q.t:
        return False
    pure = set()
    for m, c in q.t.items():
        if c.im != 0 or c.re <= 0:
            return False
        ks = []
        for a, e in m:
            if a[0] == "k":
                if not (isinstance(e, int) and e % 2 == 0 and e > 0):
                    return False
                ks.append(a)
            elif a[0] == "abs" and all(b[0] == "k" for b in a[1].atoms()):
                ks.extend(a[1].atoms())
            elif a[0] in ("P", "R"):
                if not is_definite(a[1]):
                    return False
                ks.extend(b for b in a[1].all_atoms() if b[0] == "k")
            elif not alg._atom_nonneg(a):
                return False
        if len({(a[1], a[2]) for a in ks}) == 1:
            pure.add((ks[0][1], ks[0][2]))
        elif not ks:
            return True  # positive constant term
        elif m and len(m) == 1 and m[0][0][0] in ("P", "R"):
            # a single P(...) factor that is itself definite covers all its axes
            inner = m[0][0][1]
            for a in k_axes(inner):
                pure.add(a)
    allk = set(k_axes(q))
    if not allk:
        return False
    D = next(iter(allk))[1]
    return all((j, D) in pure for j in range(D))


def specialize(p, world):
    """world: 'generic' | 'dc' | dict axis -> 'zero'|'int'|'nyq'  (nyq needs atom N via world['N'])"""
    if isinstance(world, str):
        if world == "generic":
            return _spec_generic(p)
        if world == "dc":
            return _spec_dc(p)
        raise ValueError(world)
    return _spec_axes(p, world)


def _spec_generic(p):
    def f(a):
        if a[0] == "ind":
            if a[1] == "dc":
                return Poly()
            if a[1] == "eq":
                q = a[2] - a[3]
                q = alg.map_atoms(q, f)
                if len(q.t) == 1:
                    ((m, c),) = q.t.items()
                    q1 = Poly({m: ONE})
                    # a monomial vanishes iff one factor does; q1^2 definite  <=>  never zero for k != 0
                    if all(b[0] in ("k", "P", "R", "abs") or alg._atom_pos(b) for b, _ in m) and is_definite(q1 * q1):
                        return Poly()
                else:
                    c0, g, qq = alg.primitive(q)
                    gok = all(alg._atom_pos(b) for b, _ in g)
                    if gok and (is_definite(qq) or is_definite(-qq)):
                        return Poly()
        return None

    return alg.map_atoms(p, f)


def _spec_dc(p):
    # 1. resolve indicators whose predicate becomes decidable at k = 0
    def f_ind(a):
        if a[0] == "ind":
            if a[1] == "dc":
                return Poly.const(1)
            l = _k_to_zero(a[2])
            r = _k_to_zero(a[3])
            return alg.ind(a[1], l, r)
        return None

    p1 = alg.map_atoms(p, f_ind)
    return _k_to_zero(p1)


def _k_to_zero(p):
    out = Poly()
    for m, c in p.t.items():
        term = Poly.const(c)
        dead = False
        for a, e in m:
            if a[0] == "k":
                if e > 0:
                    dead = True
                    break
                raise AlgError("negative power of a wavenumber at DC")
        if dead:
            continue
        for a, e in m:
            if a[0] in ("P", "R"):
                inner = _k_to_zero(a[1])
                if inner.is_zero():
                    if e > 0:
                        dead = True
                        break
                    raise AlgError(f"singular at DC: {alg.fmt_atom(a)}^{e}")
                term = term * (inner**e if a[0] == "P" else inner ** Fr(e, a[2]))
            elif a[0] == "abs":
                inner = _k_to_zero(a[1])
                if inner.is_zero():
                    dead = True
                    break
                term = term * (alg.absval(inner) ** e)
            elif a[0] in ("exp", "expi"):
                inner = _k_to_zero(Poly({a[1]: ONE}))
                ex = alg.exp(inner if a[0] == "exp" else inner.scale(alg.IMAG))
                term = term * (ex**e)
            elif a[0] == "ind":
                l = _k_to_zero(a[2]) if isinstance(a[2], Poly) else a[2]
                r = _k_to_zero(a[3]) if len(a) > 3 and isinstance(a[3], Poly) else (a[3] if len(a) > 3 else None)
                if isinstance(l, Poly) and isinstance(r, Poly):
                    term = term * alg.ind(a[1], l, r)
                else:
                    term = term * Poly.atom(a)
            else:
                term = term * Poly.atom(a, e)
        if not dead:
            out = out + term
    return out


def _spec_axes(p, world):
    N = world.get("N", Poly.sym("N"))

    def subst_k(q):
        sub = {}
        for a in q.all_atoms():
            if a[0] == "k":
                cls = world.get(a[1])
                if cls == "zero":
                    sub[a] = Poly()
                elif cls == "nyq":
                    sub[a] = N / 2 if a[3] == "half" else -N / 2
        return alg.subs(q, sub) if sub else q

    def f(a):
        if a[0] == "ind":
            if a[1] == "dc":
                return Poly.const(1 if all(world.get(j) == "zero" for j in range(a[2])) else 0)
            l, r = subst_k(a[2]), subst_k(a[3])
            d = l - r
            if d.as_number() is not None:
                return alg.ind(a[1], l, r)
            if a[1] == "eq":
                # interior wavenumber compared with 0 or +-N/2
                ks = [b for b in d.atoms() if b[0] == "k"]
                if len(ks) == 1 and world.get(ks[0][1]) == "int":
                    kpoly = Poly.atom(ks[0])
                    coef = None
                    for m, c in d.t.items():
                        if m == ((ks[0], 1),):
                            coef = c
                    if coef is not None:
                        rest = (d - kpoly.scale(coef)).scale(coef.inv())
                        if rest.is_zero() or rest == N / 2 or rest == -N / 2:
                            return Poly()
            return alg.ind(a[1], l, r)
        return None

    p1 = alg.map_atoms(p, f)
    return subst_k(p1)


# ----------------------------------------------------------------------------- FFT pair

MULT_TAGS = {"k", "ind", "P", "R", "abs", "exp", "expi", "pow"}


def is_multiplier_atom(a):
    """grid-varying atom that is a pure function of the wavenumbers"""
    if a[0] == "k":
        return True
    if a[0] == "ind" and a[1] == "dc":
        return True
    if a[0] in MULT_TAGS:
        inner = []
        for x in a[1:]:
            if isinstance(x, Poly):
                inner.extend(x.all_atoms())
            elif isinstance(x, tuple) and x and isinstance(x[0], tuple):
                inner.extend(Poly({x: ONE}).all_atoms())
        vs = [b for b in inner if b[0] in BASE_VARYING or (b[0] == "draw" and b[4] == "A")]
        return bool(vs) and all(b[0] == "k" for b in vs)
    return False


def _check_axes(t, axes):
    if axes is None:
        raise Unsupported("FFT over all axes (axes=None)")
    axes = tuple(axes)
    n = len(axes)
    if t.ndim < n or t.ndim == 0:
        raise ShapeError(f"FFT over {n} axes of a rank-{t.ndim} array")
    if tuple(a % t.ndim for a in axes) != tuple(range(t.ndim - n, t.ndim)):
        return None
    return n


def fft_forward(it, t, axes, s, norm, node):
    n = _check_axes(t, axes)
    tag = "F"
    extra = ()
    if n is None or norm is not None or s is not None:
        tag = "Fx"
        extra = (repr(tuple(axes)), repr(norm), repr(s))
        n = len(tuple(axes))
        it.event("nonstandard-fft", node, f"axes={axes} norm={norm} s={s}")
    if n == 0 or n > t.ndim:
        raise ShapeError("rfftn axes out of range")
    lens = t.shape[t.ndim - n :]
    if not all(is_sym(d) for d in lens):
        raise Unsupported("FFT over concrete axes")
    N = lens[-1]
    from .jnpops import floordiv

    H = as_poly(floordiv(it, N, 2, node)) + 1
    shape = t.shape[:-1] + (H,)

    meta = dict(t.meta)
    meta["fourier"] = True
    return Tens(shape, [forward_entry(e, n, tag, extra) for e in t.data], meta)


def forward_entry(e, n, tag="F", extra=()):
    out = Poly()
    for c, const, var in split_terms(e, varies):
        out = out + Poly({const: c}) * Poly.atom((tag, Poly({var: ONE}), n) + extra)
    return out


def fft_inverse(it, t, axes, s, norm, node):
    n = _check_axes(t, axes)
    tagx = ()
    if n is None or norm is not None:
        it.event("nonstandard-fft", node, f"axes={axes} norm={norm}")
        tagx = (repr(tuple(axes)), repr(norm))
        n = len(tuple(axes))
    if n == 0 or n > t.ndim:
        raise ShapeError("irfftn axes out of range")
    lens = t.shape[t.ndim - n :]
    if not all(is_sym(d) for d in lens):
        raise Unsupported("inverse FFT over concrete axes")
    from .jnpops import floordiv, _shape_arg

    if s is None:
        out_lens = lens[:-1] + ((as_poly(lens[-1]) - 1) * 2,)
        it.event("irfftn-without-s", node, "")
    else:
        out_lens = _shape_arg(s)
        if len(out_lens) != n:
            raise ShapeError("irfftn: len(s) != len(axes)")
        ok = all(a == b for a, b in zip(out_lens[:-1], lens[:-1])) and (as_poly(floordiv(it, as_poly(out_lens[-1]), 2, node)) + 1) == as_poly(lens[-1])
        if not ok:
            raise ShapeError(f"irfftn: requested shape {out_lens} does not fit spectrum axes {lens}")
    shape = t.shape[: t.ndim - n] + tuple(out_lens)
    total = _total(out_lens)
    unit = ("Idc", Poly.const(1), n) + tagx

    def lin(e):
        return inverse_entry(e, n, tagx, total)

    meta = dict(t.meta)
    meta.pop("fourier", None)
    return Tens(shape, [lin(e) for e in t.data], meta)


def inverse_entry(e, n, tagx=(), total=None):
    r = _inverse_entry(e, n, tagx)
    # ifft of a pure mean-mode value c (no spectrum factor) is the constant field c / N^D
    unit = ("Idc", Poly.const(1), n) + tuple(tagx)
    if unit in r.atoms():
        if total is None:
            total = Poly.sym("N") ** n
        r = alg.subs(r, {unit: as_poly(total).inverse()})
    return r


def _inverse_entry(e, n, tagx=()):
    groups = {}
    for m, c in e.t.items():
        mult = tuple((a, x) for a, x in m if (not varies(a)) or is_multiplier_atom(a))
        spec = tuple((a, x) for a, x in m if varies(a) and not is_multiplier_atom(a))
        groups[spec] = groups.get(spec, Poly()) + Poly({mult: c})
    out = Poly()
    for spec, M in groups.items():
        X = Poly({spec: ONE})
        Mg = _spec_generic(M)
        try:
            Md = _spec_dc(M)
        except AlgError:
            Md = None
        for c, const, var in split_terms(Mg, varies):
            out = out + Poly({const: c}) * Poly.atom(("I", Poly({var: ONE}), X, n) + tagx)
        if Md is None:
            out = out + Poly.atom(("IdcSingular", M, X, n))
        elif not Md.is_zero():
            out = out + Md * Poly.atom(("Idc", X, n) + tagx)
    return out


# ----------------------------------------------------------------------------- scan


def scan(it, a, k, node):
    from . import interp as I
    from . import jnpops as J

    names = ["f", "init", "xs", "length"]
    kw = dict(zip(names, a))
    kw.update(k)
    f, init, xs, length = kw.get("f"), kw.get("init"), kw.get("xs"), kw.get("length")
    for extra in set(kw) - set(names):
        if extra in ("reverse", "unroll"):
            it.event("scan-option", node, f"{extra}={kw[extra]}")
            if extra == "reverse" and kw[extra]:
                raise Unsupported("reverse scan")
        else:
            raise Unsupported(f"scan keyword {extra}")
    leaves = J.tree_leaves(init)
    xleaves = J.tree_leaves(xs)
    term_mode = I.contains_term(init) or I.contains_term(xs) or any(isinstance(l, I.KeyVal) for l in leaves) or getattr(it.ctx, "scan_term_mode", False)
    it.ctx.__dict__.setdefault("scan_sites", []).append({"file": it.cur_file(), "line": getattr(node, "lineno", None), "fn": it.cur_fn(), "length": repr(length), "xs": "None" if xs is None else type(xs).__name__})
    if term_mode:
        cnt = it.ctx.__dict__.setdefault("_scan_counter", [0])
        cnt[0] += 1
        sid = cnt[0]

        def ph(leaf, i):
            if isinstance(leaf, I.KeyVal):
                return I.KeyVal((("carry", sid, i),))
            return I.Term("carry", sid, i)

        ctr = [0]

        def mk(leaf):
            ctr[0] += 1
            return ph(leaf, ctr[0])

        carry = J.tree_map_py(mk, init)
        xctr = [0]

        def mkx(leaf):
            xctr[0] += 1
            return I.Term("x", sid, xctr[0])

        x = J.tree_map_py(mkx, xs)
        res = it.call(f, [carry, x], {}, node)
        if not isinstance(res, tuple) or len(res) != 2:
            raise I.RepoRaise("TypeError", node, it.cur_file(), "scan body must return a pair")
        c2, y = res
        body = I.Term("scan_body", sid, c2, y)
        n_leaves = lambda tr: J.tree_leaves(tr)
        final = _relabel(J, I, c2, lambda i, leaf: I.Term("scan_final", body, init, xs, length, i))
        stacked = _relabel(J, I, y, lambda i, leaf: I.Term("scan_stack", body, init, xs, length, i))
        it.ctx.__dict__.setdefault("scan_results", []).append({"sid": sid, "carry_out": c2, "emit": y, "init": init, "xs": xs, "length": length, "fn": it.cur_fn()})
        return final, stacked

    # ---- array mode
    # representative of xs
    n_len = None
    if xs is not None:
        for xl in xleaves:
            t = J._arr(xl)
            if t.ndim == 0:
                raise I.RepoRaise("ValueError", node, it.cur_file(), "scan over a 0-d array")
            if n_len is None:
                n_len = t.shape[0]
            elif n_len != t.shape[0]:
                raise I.RepoRaise("ValueError", node, it.cur_file(), "scan xs leading axes differ")
    if length is not None:
        lp = T.dim_norm(J.num_to_poly(length))
        if n_len is not None and lp != n_len:
            raise I.RepoRaise("ValueError", node, it.cur_file(), "scan length does not match xs")
        n_len = lp
    if n_len is None:
        raise I.RepoRaise("ValueError", node, it.cur_file(), "scan needs xs or length")
    cnt = it.ctx.__dict__.setdefault("_scan_counter", [0])
    cnt[0] += 1
    sid = cnt[0]
    bound = ("idx", ("scan", sid))

    def xrep(leaf):
        t = J._arr(leaf)
        if not is_sym(t.shape[0]):
            raise Unsupported("array-mode scan over a concrete-length axis")
        def ren(aa):
            if aa[0] == "idx" and aa[1] in ("ar", "lin"):
                return Poly.atom(bound)
            return None
        return Tens(t.shape[1:], [alg.map_atoms(e, ren) for e in t.data], t.meta)

    x = J.tree_map_py(xrep, xs)
    lctr = [0]
    carry_leaves = []

    def mkc(leaf):
        t = J._arr(leaf)
        li = lctr[0]
        lctr[0] += 1
        ph = Tens(t.shape, [Poly.atom(("carry", sid, li, j)) for j in range(len(t.data))], t.meta)
        carry_leaves.append((t, ph))
        return ph

    carry = J.tree_map_py(mkc, init)
    res = it.call(f, [carry, x], {}, node)
    if not isinstance(res, tuple) or len(res) != 2:
        raise I.RepoRaise("TypeError", node, it.cur_file(), "scan body must return a pair")
    c2, y = res
    out_leaves = J.tree_leaves(c2)
    if len(out_leaves) != len(carry_leaves):
        raise I.RepoRaise("TypeError", node, it.cur_file(), "scan carry structure changed")
    finals = []
    kind = []
    for (t0, ph), o in zip(carry_leaves, out_leaves):
        o = J._arr(o)
        if o.shape != ph.shape:
            o = T.broadcast_to(o, ph.shape) if len(o.data) == 1 and o.ndim <= ph.ndim else o
        if o.shape != ph.shape:
            raise I.RepoRaise("TypeError", node, it.cur_file(), f"scan carry shape changed {ph.shape} -> {o.shape}")
        data = []
        for e0, p, e in zip(t0.data, ph.data, o.data):
            d = e - p
            if any(b[0] == "carry" and b[1] == sid for b in d.all_atoms()):
                raise Unsupported("scan body is not an accumulation (carry enters non-additively)")
            if d.is_zero():
                data.append(e0)
                kind.append("const")
            else:
                data.append(e0 + bound_sum(d, bound, n_len))
                kind.append("accumulate")
        finals.append(Tens(t0.shape, data, t0.meta))
    fit = iter(finals)
    final = J.tree_map_py(lambda leaf: next(fit), c2)

    def stack_leaf(leaf):
        if isinstance(leaf, I.Term):
            return I.Term("scan_map", leaf, bound, n_len)
        t = J._arr(leaf)
        if any(b[0] == "carry" and b[1] == sid for e in t.data for b in e.all_atoms()):
            raise Unsupported("scan emits a carry-dependent value in array mode")
        return Tens((n_len,) + t.shape, t.data, t.meta)

    stacked = J.tree_map_py(stack_leaf, y)
    it.ctx.__dict__.setdefault("scan_results", []).append({"sid": sid, "mode": "array", "kinds": kind, "fn": it.cur_fn(), "length": n_len})
    return final, stacked


def _relabel(J, I, tree, mk):
    ctr = [0]

    def f(leaf):
        ctr[0] += 1
        return mk(ctr[0], leaf)

    return J.tree_map_py(f, tree)


def bound_sum(d, bound, n_len):
    """sum over the scan index of d (which may contain the bound index atom)"""
    out = Poly()

    def dep(a):
        if a == bound:
            return True
        for x in a[1:]:
            if isinstance(x, Poly) and any(dep(b) for b in x.atoms()):
                return True
            if isinstance(x, tuple) and x and isinstance(x[0], tuple) and any(dep(b) for b, _ in x if isinstance(b, tuple)):
                return True
        return False

    canon = ("idx", "j")

    def ren(a):
        if a == bound:
            return Poly.atom(canon)
        return None

    for c, const, var in split_terms(d, dep):
        base = Poly({const: c})
        if var:
            summand = alg.map_atoms(Poly({var: ONE}), ren)
            out = out + base * Poly.atom(("RSum", summand, as_poly(n_len)))
        else:
            out = out + base * as_poly(n_len)
    return out


# ----------------------------------------------------------------------------- derived worlds


def kill_k_times_zero_indicator(p):
    """relation k_a * 1{k_a == 0} = 0"""
    out = Poly()
    for m, c in p.t.items():
        zero_axes = set()
        for a, e in m:
            if a[0] == "ind" and a[1] == "eq" and a[3].is_zero() and len(a[2].t) == 1:
                ((mm, cc),) = a[2].t.items()
                if len(mm) == 1 and mm[0][0][0] == "k" and mm[0][1] == 1:
                    zero_axes.add(mm[0][0])
        if any(a in zero_axes and e > 0 for a, e in m):
            continue
        out = out + Poly({m: c})
    return out


def dc_component(p, n):
    """value at the mean mode of a Fourier-space canonical form: k -> 0, F[q] -> Sum over the grid of q"""
    N = Poly.sym("N")
    q = specialize(p, "dc")

    def f(a):
        if a[0] == "F":
            return sym_sum(a[1], (N,) * a[2])
        if a[0] == "dc":
            return Poly.atom(a[1])
        return None

    return alg.map_atoms(q, f)


def constant_state(p, values, name="u"):
    """evaluate a canonical form on a spatially constant state: u_c(x) = values[c].
    I[m, u_c] (mean-free part) -> 0, Idc[u_c] -> values[c], F[1] -> N^D * delta_DC,
    spectrum atom u_c^ -> values[c] * N^D * delta_DC"""
    N = Poly.sym("N")

    def f(a):
        if a[0] == "I" and _only_state(a[2], name):
            return Poly()
        if a[0] == "Idc" and _only_state(a[1], name):
            return _state_value(a[1], values, name)
        if a[0] == "F" and a[1] == Poly.const(1):
            return (N ** a[2]) * Poly.atom(("ind", "dc", a[2]))
        return None

    q = alg.map_atoms(p, f)
    # forward transforms of (now) constant arguments
    def g(a):
        if a[0] == "F" and not any(varies(b) for b in a[1].atoms()):
            return a[1] * (N ** a[2]) * Poly.atom(("ind", "dc", a[2]))
        return None

    return alg.map_atoms(q, g)


def _only_state(X, name):
    return len(X.t) == 1 and all(a[0] == "u" and a[1] == name for a in X.atoms()) and bool(X.atoms())


def _state_value(X, values, name):
    ((m, c),) = X.t.items()
    r = Poly.const(c)
    for a, e in m:
        r = r * as_poly(values[a[2]]) ** e
    return r


# ----------------------------------------------------------------------------- re-normalisation hooks


def _rebuild_sum(a):
    return sym_sum(a[1], a[2])


def _rebuild_F(a):
    return forward_entry(a[1], a[2], a[0], tuple(a[3:]))


def _rebuild_I(a):
    # ('I', multiplier monomial, spectrum, n): linear in the spectrum part
    # ... and in the multiplier: a substitution may turn the multiplier monomial into a sum (k0^2/|k|^2 -> 1 - k1^2/|k|^2)
    out = Poly()
    if a[1].is_zero():
        return Poly()
    mults = list(split_terms(a[1], varies)) if len(a[1].t) > 1 else [(ONE, (), None)]
    for c, const, var in split_terms(a[2], lambda b: varies(b) and not is_multiplier_atom(b)):
        for mc, mconst, mvar in mults:
            M = a[1] if mvar is None else Poly({mvar: ONE})
            out = out + Poly({const: c}) * Poly({mconst: mc}) * Poly.atom(("I", M, Poly({var: ONE})) + tuple(a[3:]))
    return out


def _rebuild_Idc(a):
    out = Poly()
    for c, const, var in split_terms(a[1], lambda b: varies(b) and not is_multiplier_atom(b)):
        out = out + Poly({const: c}) * Poly.atom(("Idc", Poly({var: ONE})) + tuple(a[2:]))
    return out


def _rebuild_rsum(a):
    return bound_sum(a[1], ("idx", "j"), a[2])


alg.REBUILD.update({"Sum": _rebuild_sum, "F": _rebuild_F, "Fx": _rebuild_F, "I": _rebuild_I, "Idc": _rebuild_Idc, "RSum": _rebuild_rsum})


def assume_mean_mode_retained(p):
    """standing assumption of the mean-mode arguments: the dealiasing band contains k = 0, i.e.
    indicators 1{0 <= cutoff} are 1 (true whenever fraction*(N//2) >= 1)"""

    def f(a):
        if a[0] == "ind" and a[1] == "le" and a[2].is_zero():
            return Poly.const(1)
        return None

    return alg.map_atoms(p, f)


def kill_contradictions(p):
    """drop terms whose indicator factors are jointly unsatisfiable on one wavenumber (numeric bounds only),
    e.g. 1{0 <= k} * 1{k < 0}; applied inside transform atoms as well"""

    def clean(q):
        out = Poly()
        for m, c in q.t.items():
            lo, hi = {}, {}
            for a, e in m:
                if a[0] == "ind" and a[1] in ("le", "lt"):
                    l, r = a[2], a[3]
                    ln, rn = l.as_number(), r.as_number()
                    if ln is not None and len(r.t) == 1 and rn is None:
                        ((mm, cc),) = r.t.items()
                        if len(mm) == 1 and mm[0][0][0] == "k" and mm[0][1] == 1 and cc == ONE:
                            # ln <(=) k
                            v = (ln, a[1] == "lt")
                            k = mm[0][0]
                            if k not in lo or v > lo[k]:
                                lo[k] = v
                    if rn is not None and len(l.t) == 1 and ln is None:
                        ((mm, cc),) = l.t.items()
                        if len(mm) == 1 and mm[0][0][0] == "k" and mm[0][1] == 1 and cc == ONE:
                            v = (rn, a[1] == "lt")
                            k = mm[0][0]
                            if k not in hi or v[0] < hi[k][0] or (v[0] == hi[k][0] and v[1]):
                                hi[k] = v
            dead = False
            for k in lo:
                if k in hi:
                    (l, ls), (h, hs) = lo[k], hi[k]
                    if l > h or (l == h and (ls or hs)):
                        dead = True
            if not dead:
                out = out + Poly({m: c})
        return out

    def f(a):
        return None

    # clean nested polynomials first (multipliers inside I atoms), then the top level
    def g(a):
        if a[0] == "I":
            inner = clean(a[1])
            if inner != a[1]:
                if inner.is_zero():
                    return Poly()
                return Poly.atom(("I", inner) + tuple(a[2:]))
        return None

    return clean(alg.map_atoms(p, g))
