"""Transfer functions for library calls, operators and builtins (DESIGN Appendix A)."""

from __future__ import annotations

import ast
import itertools
from fractions import Fraction as Fr

from . import alg
from .alg import Poly, as_poly, AlgError, GQ, PI
from . import tens as T
from .tens import Tens, ShapeError, Unsupported, as_tens, is_sym
from . import symops as SO


def _I():
    from . import interp

    return interp


# ----------------------------------------------------------------------------- numbers


def is_num(x):
    return isinstance(x, (int, Fr)) and not isinstance(x, bool) or isinstance(x, bool)


def num_to_poly(x):
    if isinstance(x, Poly):
        return x
    if isinstance(x, (bool, int, Fr)):
        return Poly.const(x)
    if isinstance(x, float):
        return Poly.const(Fr(repr(x)))
    if x is None:
        raise NoneOperand("None used as a number")
    raise Unsupported(f"not a number: {x!r}")


class NoneOperand(Unsupported):
    """None reached an arithmetic / array operation: TypeError in Python and in jax.numpy"""


def simplify_scalar(p):
    """Poly -> python number when it is a real constant"""
    if isinstance(p, Poly):
        n = p.as_number()
        if n is not None:
            return n
    return p


def parity_of(interp, p):
    """value of integer-valued polynomial p modulo 2 using ctx.parity, or None"""
    p = as_poly(p)
    tot = 0
    for m, c in p.t.items():
        if c.im != 0 or c.re.denominator != 1:
            return None
        v = int(c.re) % 2
        for a, e in m:
            if a not in interp.ctx.parity or not isinstance(e, int) or e < 1:
                return None
            v *= interp.ctx.parity[a]
        tot += v
    return tot % 2


def floordiv(interp, a, b, node):
    if is_num(a) and is_num(b):
        return a // b
    bn = b if is_num(b) else as_poly(b).as_number()
    if bn == 2:
        r = parity_of(interp, a)
        if r is None:
            raise Unsupported(f"floor division of {a} by 2 with unknown parity")
        return simplify_scalar((as_poly(a) - r) / 2)
    if bn == 1:
        return a
    if _sizes_only(a) and _sizes_only(b):
        if (str(as_poly(a)), str(as_poly(b))) in getattr(interp.ctx, "divisible", ()):
            return simplify_scalar(as_poly(a) / as_poly(b))  # under the assumed outcome of `a % b == 0`
        return alg.fn("floordiv", as_poly(a), as_poly(b))
    raise Unsupported(f"floor division {a} // {b}")


def _sizes_only(x):
    """an integer expression in the grid-size symbols only (N, Nold, Nnew, n, M) and integer constants"""
    if is_num(x):
        return True
    p = as_poly(x)
    ats = p.all_atoms()
    return bool(ats) and all(a[0] == "s" and a in alg.ASSUME_MIN or (a[0] == "fn" and a[1] in ("mod", "floordiv")) for a in ats)


def mod(interp, a, b, node):
    if is_num(a) and is_num(b):
        return a % b
    bn = b if is_num(b) else as_poly(b).as_number()
    if bn == 2:
        r = parity_of(interp, a)
        if r is None:
            raise Unsupported(f"{a} % 2 with unknown parity")
        return r
    if _sizes_only(a) and _sizes_only(b):
        return alg.fn("mod", as_poly(a), as_poly(b))
    raise Unsupported(f"modulo {a} % {b}")


# ----------------------------------------------------------------------------- operators

_OPN = {
    ast.Add: "add",
    ast.Sub: "sub",
    ast.Mult: "mul",
    ast.Div: "div",
    ast.Pow: "pow",
    ast.FloorDiv: "floordiv",
    ast.Mod: "mod",
    ast.BitAnd: "and",
    ast.BitOr: "or",
    ast.BitXor: "xor",
    ast.MatMult: "matmul",
}



STATE_TAGS = {"u", "I", "Idc", "F", "Fx", "carry"}


def state_dependent(e):
    return any(a[0] in STATE_TAGS for a in as_poly(e).all_atoms())


def _smooth_exponent(b):
    """x**b is smooth in x for every x: b a non-negative integer (a symbolic exponent is not known to be one)"""
    if isinstance(b, Tens):
        if b.meta.get("float"):
            return False  # a float-typed exponent array: d/dx x**y = y * x**(y-1) is 0 * inf at x = 0, y = 0
        return all(_smooth_exponent(e) for e in b.data)
    if isinstance(b, Poly):
        b = b.as_number()
        if b is None:
            return False
    if isinstance(b, bool):
        return True
    if isinstance(b, int):
        return b >= 0
    if isinstance(b, Fr):
        return b.denominator == 1 and b >= 0
    if isinstance(b, float):
        return b >= 0 and float(b).is_integer()
    return False


def log_singular(it, node, kind, arg, only_state=False):
    """C07: remember every primitive whose derivative is unbounded where its argument vanishes"""
    sl = getattr(it.ctx, "singular_log", None)
    if sl is None:
        return
    t = arg if isinstance(arg, Tens) else as_tens(num_to_poly(arg)) if not isinstance(arg, Poly) else as_tens(arg)
    if only_state and not any(state_dependent(e) for e in t.data):
        return
    sl.append({"file": it.cur_file(), "line": getattr(node, "lineno", None), "fn": it.cur_fn(), "kind": kind, "arg": t, "src": ast.unparse(node)[:160] if node is not None else ""})


def binop(interp, op, a, b, node):
    I = _I()
    name = _OPN.get(type(op))
    if name is None:
        raise Unsupported(f"operator {type(op).__name__}")
    if isinstance(a, I.Term) or isinstance(b, I.Term):
        return I.Term("binop", name, a, b)
    # sequences
    if isinstance(a, (list, tuple)) and isinstance(b, (list, tuple)) and name == "add":
        if type(a) is not type(b):
            raise interp.err("can only concatenate like sequences", node)
        return a + b
    if isinstance(a, (list, tuple)) and isinstance(b, int) and name == "mul":
        return a * b
    if isinstance(b, (list, tuple)) and isinstance(a, int) and name == "mul":
        return a * b
    if isinstance(a, str) and name in ("add", "mod"):
        return "<str>"
    if isinstance(a, (list, tuple)) or isinstance(b, (list, tuple)):
        # numpy semantics: list * array
        a = as_tens(a) if isinstance(a, (list, tuple)) else a
        b = as_tens(b) if isinstance(b, (list, tuple)) else b
    if name == "matmul":
        return REG["jnp.matmul"](interp, [a, b], {}, node)
    if getattr(interp.ctx, "singular_log", None) is not None and name in ("div", "pow") and (isinstance(b, (Tens, Poly)) or isinstance(a, (Tens, Poly))):
        if name == "div" and isinstance(b, (Tens, Poly)):
            log_singular(interp, node, "division", b, only_state=True)
        elif name == "pow" and not _smooth_exponent(b) and isinstance(a, (Tens, Poly)):
            log_singular(interp, node, "power", a)
    if isinstance(a, Tens) or isinstance(b, Tens):
        return T.ewise(lambda x, y: _scalar_binop(interp, name, x, y, node, force_poly=True), as_tens(_tp(a)), as_tens(_tp(b)))
    return _scalar_binop(interp, name, a, b, node)


def _tp(x):
    if isinstance(x, Tens):
        return x
    return num_to_poly(x)


def _scalar_binop(interp, name, a, b, node, force_poly=False):
    if is_num(a) and is_num(b) and not force_poly:
        return _num_binop(name, a, b)
    if a is None or b is None:
        raise RepoRaiseTE(interp, node, f"unsupported operand None for {name}")
    pa, pb = num_to_poly(a), num_to_poly(b)
    if name == "add":
        r = pa + pb
    elif name == "sub":
        r = pa - pb
    elif name == "mul":
        r = pa * pb
    elif name == "div":
        if pb.is_zero():
            raise alg.ZeroDiv("division by the constant zero")
        r = pa / pb
    elif name == "pow":
        r = pa**pb
    elif name == "floordiv":
        r = as_poly(floordiv(interp, pa, pb, node))
    elif name == "mod":
        r = as_poly(mod(interp, pa, pb, node))
    elif name == "and":
        r = pa * pb
    elif name == "or":
        r = pa + pb - pa * pb
    elif name == "xor":
        r = pa + pb - 2 * pa * pb
    else:
        raise Unsupported(f"operator {name}")
    return r if force_poly else simplify_scalar(r)


def RepoRaiseTE(interp, node, msg):
    return _I().RepoRaise("TypeError", node, interp.cur_file(), msg)


def _num_binop(name, a, b):
    if name == "add":
        return a + b
    if name == "sub":
        return a - b
    if name == "mul":
        return a * b
    if name == "div":
        if b == 0:
            raise alg.ZeroDiv("division by zero")
        return Fr(a) / Fr(b) if not (isinstance(a, Fr) or isinstance(b, Fr)) else a / b
    if name == "floordiv":
        return a // b
    if name == "mod":
        return a % b
    if name == "pow":
        if isinstance(b, int) or (isinstance(b, Fr) and b.denominator == 1):
            b = int(b)
            if b < 0:
                return Fr(a) ** b
            return a**b
        return simplify_scalar(Poly.const(a) ** b)
    if name == "and":
        return a & b
    if name == "or":
        return a | b
    if name == "xor":
        return a ^ b
    raise Unsupported(name)


def unop(interp, op, v, node):
    I = _I()
    if isinstance(v, I.Term):
        return I.Term("unop", type(op).__name__, v)
    if isinstance(op, ast.UAdd):
        return v
    if isinstance(op, ast.USub):
        if is_num(v):
            return -v
        if isinstance(v, Poly):
            return -v
        if isinstance(v, Tens):
            return v.map(lambda x: -x)
    if isinstance(op, ast.Invert):
        if isinstance(v, bool):
            return not v
        if isinstance(v, int):
            return ~v
        if isinstance(v, Poly):
            return 1 - v
        if isinstance(v, Tens):
            return v.map(lambda x: 1 - x)
    raise Unsupported(f"unary {type(op).__name__} on {type(v).__name__}")


# ----------------------------------------------------------------------------- comparison


def fact_lookup(interp, d):
    """sign knowledge about polynomial d from ctx.facts: returns one of '>0','<0','=0' or None"""
    for p, rel in interp.ctx.facts:
        if p == d:
            return rel
        if p == -d:
            return {">0": "<0", "<0": ">0", "=0": "=0", "!=0": "!=0", ">=0": "<=0", "<=0": ">=0"}[rel]
    return None


def cmp_scalar(interp, opn, a, b, node):
    pa, pb = num_to_poly(a), num_to_poly(b)
    d = pa - pb
    n = d.as_number()
    if n is None and d.is_const():
        # complex constant
        if opn in ("eq", "ne"):
            return (opn == "ne")
        raise Unsupported("ordering of complex numbers")
    if n is not None:
        return {"eq": n == 0, "ne": n != 0, "lt": n < 0, "le": n <= 0, "gt": n > 0, "ge": n >= 0}[opn]
    rel = fact_lookup(interp, d)
    if rel is not None:
        table = {
            ">0": {"eq": False, "ne": True, "lt": False, "le": False, "gt": True, "ge": True},
            "<0": {"eq": False, "ne": True, "lt": True, "le": True, "gt": False, "ge": False},
            "=0": {"eq": True, "ne": False, "lt": False, "le": True, "gt": False, "ge": True},
            "!=0": {"eq": False, "ne": True},
            ">=0": {"lt": False, "ge": True},
            "<=0": {"gt": False, "le": True},
        }
        r = table[rel].get(opn)
        if r is not None:
            return r
    if opn == "eq":
        return alg.ind("eq", pa, pb)
    if opn == "ne":
        return 1 - alg.ind("eq", pa, pb)
    if opn == "le":
        return alg.ind("le", pa, pb)
    if opn == "lt":
        return alg.ind("lt", pa, pb)
    if opn == "ge":
        return alg.ind("le", pb, pa)
    if opn == "gt":
        return alg.ind("lt", pb, pa)
    raise Unsupported(opn)


_CMP = {ast.Eq: "eq", ast.NotEq: "ne", ast.Lt: "lt", ast.LtE: "le", ast.Gt: "gt", ast.GtE: "ge"}


def py_equal(interp, a, b, node):
    """python == on arbitrary static values; symbolic scalars compare by canonical form"""
    if isinstance(a, (tuple, list)) and isinstance(b, (tuple, list)):
        if type(a) is not type(b) or len(a) != len(b):
            return False
        return all(py_equal(interp, x, y, node) for x, y in zip(a, b))
    if isinstance(a, Poly) or isinstance(b, Poly):
        if isinstance(a, (Poly, int, Fr, bool)) and isinstance(b, (Poly, int, Fr, bool)):
            r = cmp_scalar(interp, "eq", a, b, node)
            if isinstance(r, bool):
                return r
            interp.event("symbolic-equality-in-container", node, str(r), obj=r if isinstance(r, Poly) else None)
            return False
        return False
    if isinstance(a, Tens) or isinstance(b, Tens):
        raise Unsupported("array compared inside a container")
    try:
        return a == b
    except Exception:
        return False


def compare(interp, op, a, b, node):
    I = _I()
    if isinstance(op, ast.Is):
        return _is(a, b)
    if isinstance(op, ast.IsNot):
        return not _is(a, b)
    if isinstance(op, (ast.In, ast.NotIn)):
        if isinstance(b, (list, tuple, set)):
            r = any(py_equal(interp, a, x, node) for x in b)
        elif isinstance(b, dict):
            r = a in b
        elif isinstance(b, str):
            r = a in b
        else:
            raise Unsupported(f"`in` on {type(b).__name__}")
        return r if isinstance(op, ast.In) else not r
    opn = _CMP.get(type(op))
    if opn is None:
        raise Unsupported(f"comparison {type(op).__name__}")
    if isinstance(a, I.Term) or isinstance(b, I.Term):
        return I.Term("cmp", opn, a, b)
    if isinstance(a, Tens) or isinstance(b, Tens):
        if isinstance(a, (tuple, list)) or isinstance(b, (tuple, list)):
            a, b = as_tens(a), as_tens(b)
        return T.ewise(lambda x, y: as_poly(_b2p(cmp_scalar(interp, opn, x, y, node))), as_tens(_tp(a)), as_tens(_tp(b)))
    if isinstance(a, (Poly, int, Fr, bool)) and isinstance(b, (Poly, int, Fr, bool)) and (isinstance(a, Poly) or isinstance(b, Poly)):
        return cmp_scalar(interp, opn, a, b, node)
    if opn == "eq":
        return py_equal(interp, a, b, node)
    if opn == "ne":
        return not py_equal(interp, a, b, node)
    try:
        return {"lt": lambda: a < b, "le": lambda: a <= b, "gt": lambda: a > b, "ge": lambda: a >= b}[opn]()
    except TypeError:
        raise Unsupported(f"ordering of {type(a).__name__} and {type(b).__name__}")


def _b2p(x):
    if isinstance(x, bool):
        return Poly.const(1 if x else 0)
    return x


def _is(a, b):
    if a is None or b is None:
        return a is b
    if isinstance(a, bool) or isinstance(b, bool):
        return a is b
    return a is b


# ----------------------------------------------------------------------------- indexing


class AtProxy:
    def __init__(self, t, idx=None):
        self.t = t
        self.idx = idx


class BlockView:
    """x[block] where block slices symbolic (spectrum) axes as [:a] / [-b:]: the set of wavenumbers
    it denotes per axis, together with the array it was taken from"""

    def __init__(self, t, sets):
        self.t = t
        self.sets = sets  # per axis: None (whole axis) | ('low', a) | ('high', b)


def _block_sets(t, idx):
    """per-axis wavenumber-set descriptors if idx is a block index on symbolic axes, else None"""
    idxn = T.normalize_index(idx, t.ndim)
    if any(it is None for it in idxn):
        return None
    sets = []
    found = False
    for ax, it in enumerate(idxn):
        if not isinstance(it, slice):
            return None
        if it == slice(None):
            sets.append(None)
            continue
        if not is_sym(t.shape[ax]) or it.step is not None:
            return None
        if it.start is None and it.stop is not None:
            sets.append(("low", num_to_poly(it.stop)))
            found = True
        elif it.stop is None and it.start is not None:
            sets.append(("high", -num_to_poly(it.start)))
            found = True
        else:
            return None
    return sets if found else None


def _axis_capacity(interp, n, half, side):
    """number of stored non-negative ('low') / negative ('high') wavenumbers on an axis of length n"""
    n = as_poly(n)
    if half:
        return n if side == "low" else Poly()
    par = parity_of(interp, n)
    if par is None:
        raise Unsupported(f"parity of axis length {n} unknown")
    return (n + par) / 2 if side == "low" else (n - par) / 2


def decide_nonneg(interp, d):
    """d >= 0 ?  using ctx.facts of the form (Nbig - Nsmall, '>0') between integer sizes of known parity"""
    d = as_poly(d)
    nval = d.as_number()
    if nval is not None:
        return nval >= 0
    for p, rel in interp.ctx.facts:
        if rel != ">0":
            continue
        atoms = sorted(p.atoms(), key=alg.atom_sortkey)
        if len(atoms) != 2:
            continue
        # p = big - small
        big = [a for a in atoms if p.t.get(((a, 1),)) == alg.ONE]
        small = [a for a in atoms if p.t.get(((a, 1),)) == -alg.ONE]
        if len(big) != 1 or len(small) != 1:
            continue
        cb = d.t.get(((big[0], 1),), alg.ZERO)
        if cb.im != 0:
            continue
        alpha = cb.re
        rest = d - p.scale(alpha)
        beta = rest.as_number()
        if beta is None:
            continue
        pb, ps = interp.ctx.parity.get(big[0]), interp.ctx.parity.get(small[0])
        if pb is None or ps is None:
            continue
        pmin = 1 if pb != ps else 2
        if alpha >= 0:
            return alpha * pmin + beta >= 0
        return None
    return None


def sym_index(entry, picks, all_indexed):
    """value of a representative entry at integer positions of symbolic axes.
    picks: list of (axis_from_right, i, length)"""
    sub = {}
    for a in entry.all_atoms():
        if a[0] == "k":
            _, j, D, kind = a
            for afr, i, ln in picks:
                if D - j == afr:
                    if i >= 0 or kind == "full":
                        sub[a] = Poly.const(i)
                    else:
                        raise Unsupported("negative index on the halved wavenumber axis")
        elif a[0] == "idx" and isinstance(a[1], tuple) and a[1][0] == "grid":
            _, (_, j, D) = a
            for afr, i, ln in picks:
                if D - j == afr:
                    if i >= 0:
                        sub[a] = Poly.const(i)
                    else:
                        sub[a] = as_poly(ln) + i
    e = alg.subs(entry, sub) if sub else entry
    rest = [a for a in e.atoms() if SO.varies(a)]
    if not rest:
        return e
    if all_indexed and all(i == 0 for _, i, _ in picks):
        def f(a):
            if SO.varies(a) and a[0] in ("u", "F", "fn", "carry"):
                return Poly.atom(("dc", a))
            return None

        e2 = alg.map_atoms(e, f)
        if not [a for a in e2.atoms() if SO.varies(a)]:
            return e2
    if not all_indexed and all(i == 0 for _, i, _ in picks):
        # position 0 of SOME grid axes of a field: the restriction of the field to that hyperplane, an uninterpreted
        # "At0[atom, axes]" of the remaining axes.  (chi * At0[x] = chi * x when chi is the indicator of the same
        # hyperplane: used by partial .at updates.)
        axes_s = ",".join(str(afr) for afr, _, _ in sorted(picks))

        def g(a):
            if SO.varies(a) and a[0] in ("u", "F", "fn", "carry", "I"):
                return Poly.atom(("At0", Poly.atom(a), axes_s))
            return None

        e3 = alg.map_atoms(e, g)
        if all(a[0] == "At0" or not SO.varies(a) or a[0] in ("k", "ind") for a in e3.atoms()):
            return e3
    raise Unsupported(f"integer index on a symbolic axis of an entry that varies along it: {entry}")


def getitem(interp, o, i, node):
    I = _I()
    if isinstance(o, I.Term) or I.contains_term(i):
        return I.Term("getitem", o, i)
    if isinstance(o, AtProxy):
        return AtProxy(o.t, i)
    if isinstance(o, (list, tuple, str, range)):
        if isinstance(i, slice):
            return o[slice(*[None if x is None else I._static_int(x) for x in (i.start, i.stop, i.step)])]
        ii = I._static_int(i)
        try:
            return o[ii]
        except IndexError:
            raise I.RepoRaise("IndexError", node, interp.cur_file(), f"index {ii} out of range for a sequence of length {len(o)}")
    if isinstance(o, dict):
        try:
            return o[i]
        except KeyError:
            raise I.RepoRaise("KeyError", node, interp.cur_file(), f"key {i!r}")
    if isinstance(o, Tens):
        idx = i if isinstance(i, tuple) else (i,)
        if any(isinstance(x, (Tens, list)) for x in idx):
            raise Unsupported("advanced (array) indexing")
        sets = _block_sets(o, idx)
        if sets is not None:
            return BlockView(o, sets)

        def handler(e, picks, all_indexed):
            return sym_index(e, picks, all_indexed)

        return getitem_tens(o, idx, handler)
    if isinstance(o, Poly):
        raise RepoRaiseTE(interp, node, "indexing a scalar")
    raise Unsupported(f"indexing {type(o).__name__}")


def getitem_tens(t, idx, handler):
    idxn = T.normalize_index(idx, t.ndim)
    # x[::step] along a symbolic (grid) axis: every step-th sample - an uninterpreted resampling of the field
    strided = []
    ax = 0
    idx2 = []
    for it_ in idxn:
        if it_ is None:
            idx2.append(it_)
            continue
        if isinstance(it_, slice) and is_sym(t.shape[ax]) and it_.start is None and it_.stop is None and it_.step is not None and not (is_num(it_.step) and it_.step == 1):
            strided.append((ax, it_.step))
            idx2.append(slice(None))
        else:
            idx2.append(it_)
        ax += 1
    if strided:
        base = getitem_tens(t, tuple(idx2), handler)
        if any(x is None for x in idx2) or base.ndim != t.ndim:
            raise Unsupported("strided slice on a symbolic axis combined with integer / new-axis indexing")
        shape = list(base.shape)
        tag = []
        for ax, st in strided:
            shape[ax] = simplify_scalar(as_poly(shape[ax]) / as_poly(st)) if not is_num(st) or st > 0 else shape[ax]
            tag.append((t.ndim - ax, as_poly(st)))
        axes_s = ",".join(str(a_) for a_, _ in tag)
        return Tens(tuple(shape), [Poly.atom(("Strided", e, axes_s) + tuple(st_ for _, st_ in tag)) for e in base.data], base.meta)
    picks = []
    ax = 0
    nsym = len(t.sym_axes())
    for it in idxn:
        if it is None:
            continue
        if is_sym(t.shape[ax]) and not isinstance(it, slice):
            ii = T._as_int(it)
            if ii is None:
                raise Unsupported(f"index {it!r} on symbolic axis")
            picks.append((t.ndim - ax, ii, t.shape[ax]))
        ax += 1
    if not picks:
        return T.getitem(t, tuple(idxn))
    all_indexed = len(picks) == nsym
    first = [True]

    def per_entry(e, afr, i, ln):
        # T.getitem calls once per symbolic pick; apply all picks on the first call only
        return e

    res = T.getitem(t, tuple(idxn), sym_index=per_entry)
    return res.map(lambda e: handler(e, picks, all_indexed))


# ----------------------------------------------------------------------------- attributes


def ext_attr(interp, o, attr, node):
    I = _I()
    name = I.ext_canon(f"{o.name}.{attr}")
    if name in ("jnp.pi", "math.pi", "np.pi", "numpy.pi"):
        return PI
    if name in ("jnp.e", "math.e"):
        return alg.exp(Poly.const(1))
    if name == "jnp.newaxis":
        return None
    if name == "jnp.inf":
        return Poly.sym("inf")
    return I.Ext(name)


def value_attr(interp, o, attr, node):
    I = _I()
    if isinstance(o, Tens):
        if attr == "shape":
            return tuple(o.shape)
        if attr == "ndim":
            return o.ndim
        if attr == "dtype":
            return I.Ext("dtype_of_array")
        if attr == "size":
            r = 1
            for d in o.shape:
                r = r * d
            return simplify_scalar(r)
        if attr == "real":
            return o.map(alg.real)
        if attr == "imag":
            return o.map(alg.imag)
        if attr == "T":
            return T.transpose(o, list(reversed(range(o.ndim))))
        if attr == "at":
            return AtProxy(o)
        if attr in TENS_METHODS:
            return I.PyClosure(lambda it, a, k, _m=attr: TENS_METHODS[_m](it, [o] + list(a), k, node), f"array.{attr}")
        raise Unsupported(f"array attribute .{attr}")
    if isinstance(o, AtProxy):
        if attr in ("set", "add", "multiply", "mul"):
            return I.PyClosure(lambda it, a, k: at_update(it, o, attr, a, k, node), f"at.{attr}")
        raise Unsupported(f".at[...].{attr}")
    if isinstance(o, (Poly, int, Fr)) and not isinstance(o, bool):
        if attr == "real":
            return alg.real(as_poly(o)) if isinstance(o, Poly) else o
        if attr == "imag":
            return alg.imag(as_poly(o)) if isinstance(o, Poly) else 0
        if attr == "shape":
            # python floats have no shape; jax tracers do.  Eager semantics: AttributeError
            raise I.RepoRaise("AttributeError", node, interp.cur_file(), "float has no attribute shape")
        raise Unsupported(f"scalar attribute .{attr}")
    if isinstance(o, list):
        if attr == "append":
            return I.PyClosure(lambda it, a, k: o.append(a[0]), "list.append")
        if attr == "extend":
            return I.PyClosure(lambda it, a, k: o.extend(it.iterate(a[0], node)), "list.extend")
        if attr == "index":
            return I.PyClosure(lambda it, a, k: o.index(a[0]), "list.index")
    if isinstance(o, tuple):
        if attr == "index":
            return I.PyClosure(lambda it, a, k: o.index(a[0]), "tuple.index")
        if attr == "count":
            return I.PyClosure(lambda it, a, k: o.count(a[0]), "tuple.count")
    if isinstance(o, dict):
        if attr in ("items", "keys", "values"):
            return I.PyClosure(lambda it, a, k: list(getattr(o, attr)()), f"dict.{attr}")
        if attr == "get":
            return I.PyClosure(lambda it, a, k: o.get(*a), "dict.get")
    if isinstance(o, str):
        return I.PyClosure(lambda it, a, k: "<str>", f"str.{attr}")
    if isinstance(o, I.Term):
        if attr in ("shape", "ndim", "dtype"):
            return I.Term("attr", o, attr)
        return I.PyClosure(lambda it, a, k: I.Term("method", o, attr, list(a), k), f"term.{attr}")
    if isinstance(o, I.FuncVal) and attr == "__name__":
        return o.name
    raise Unsupported(f"attribute .{attr} of {type(o).__name__}")


def at_update(interp, proxy, kind, args, kwargs, node):
    t, idx = proxy.t, proxy.idx
    v = args[0]
    if idx is None:
        raise Unsupported(".at without index")
    idx_t = idx if isinstance(idx, tuple) else (idx,)
    if isinstance(v, BlockView):
        return _block_copy(interp, t, idx_t, v, kind, node)
    if "flat_of" in t.meta:
        # flatten().at[0]  ==  the DC entry of the original array
        if idx_t != (0,):
            raise Unsupported("flat index other than 0")
        delta = SO.dc_indicator(t.meta["flat_of"], t.meta.get("flat_D"))
        vv = as_poly(v.item() if isinstance(v, Tens) else num_to_poly(v))
        if kind == "set":
            data = [(1 - delta) * e + delta * vv for e in t.data]
        elif kind == "add":
            data = [e + delta * vv for e in t.data]
        else:
            raise Unsupported(kind)
        return Tens(t.shape, data, t.meta)
    idxn = T.normalize_index(idx_t, t.ndim)
    # concrete positions must be ints, symbolic positions must all be 0 (DC) or full slices
    sym_pos = [(ax, it) for ax, it in enumerate(idxn) if is_sym(t.shape[ax])]
    if any(it is None for it in idxn):
        raise Unsupported("newaxis in .at index")
    if all(isinstance(it, slice) and it == slice(None) for _, it in sym_pos):
        sel = None
    elif all(T._as_int(it) == 0 for _, it in sym_pos):
        D = len(sym_pos)
        sel = SO.dc_indicator(tuple(t.shape[ax] for ax, _ in sym_pos), D)
    else:
        # some symbolic axes indexed with 0, the others taken whole: on an rfftn spectrum (last symbolic axis halved,
        # i.e. not of length N) position 0 along spatial axis j is the wavenumber k_j = 0
        D = len(sym_pos)
        last_len = as_poly(t.shape[sym_pos[-1][0]])
        zero_axes = []
        for j, (ax, it_) in enumerate(sym_pos):
            if isinstance(it_, slice) and it_ == slice(None):
                continue
            if T._as_int(it_) == 0:
                zero_axes.append(j)
            else:
                raise Unsupported(f".at index {idx_t} on symbolic axes")
        if last_len == Poly.sym("N") or any(as_poly(t.shape[ax]) != Poly.sym("N") for ax, _ in sym_pos[:-1]):
            raise Unsupported(f".at index {idx_t} selects part of the symbolic axes of an array that is not an rfftn spectrum")
        sel = Poly.const(1)
        for j in zero_axes:
            sel = sel * alg.ind("eq", Poly.atom(("k", j, D, "half" if j == D - 1 else "full")), Poly())
        want_axes = ",".join(str(D - j) for j in sorted(zero_axes, reverse=True))
        want_sorted = ",".join(str(x) for x in sorted(D - j for j in zero_axes))

        def unwrap(a):
            if a[0] == "At0" and a[2] == want_sorted:
                return a[1]
            return None

        if isinstance(v, Tens):
            v = Tens(tuple(d for d in v.shape), [alg.map_atoms(e, unwrap) for e in v.data], v.meta)
            # the value lives on the remaining axes: broadcast it over the updated hyperplane
            if v.has_sym() and len([d for d in v.shape if is_sym(d)]) < D:
                if len(v.data) != 1:
                    raise Unsupported(".at update of a hyperplane with a non-scalar-per-mode value")
                v = v.data[0]
        elif isinstance(v, Poly):
            v = alg.map_atoms(v, unwrap)
    vt = as_tens(_tp(v))
    out = list(t.data)
    cs = T.cshape(t.shape)
    ranges = []
    for ax, it in enumerate(idxn):
        if is_sym(t.shape[ax]):
            ranges.append([0])
        elif isinstance(it, slice):
            lo, hi, st = (T._as_int(x) if x is not None else None for x in (it.start, it.stop, it.step))
            ranges.append(list(range(*slice(lo, hi, st).indices(t.shape[ax]))))
        else:
            ii = T._as_int(it)
            if ii is None:
                raise Unsupported(f".at index {it!r}")
            if not (-t.shape[ax] <= ii < t.shape[ax]):
                raise ShapeError(f"index {ii} is out of bounds for axis {ax} with size {t.shape[ax]}")
            ranges.append([ii % t.shape[ax]])
    positions = list(itertools.product(*ranges))
    if len(vt.data) == 1:
        vals = [vt.data[0]] * len(positions)
    elif len(vt.data) == len(positions):
        vals = vt.data
    else:
        raise ShapeError(".at update value shape")
    st = T._strides(cs)
    for pos, val in zip(positions, vals):
        k = sum(i * s for i, s in zip(pos, st))
        old = out[k]
        if kind == "set":
            out[k] = val if sel is None else (1 - sel) * old + sel * val
        elif kind == "add":
            out[k] = old + (val if sel is None else sel * val)
        else:
            out[k] = old * val if sel is None else (1 - sel) * old + sel * old * val
    return Tens(t.shape, out, t.meta)


def _block_copy(interp, t, idx, view, kind, node):
    """target.at[block].set(source[block]) on spectra of (possibly) different resolutions: entries are
    copied *by wavenumber*, which is what the slices mean when they fit into the non-negative /
    negative halves of both arrays; every fit obligation is recorded as an event"""
    if kind != "set":
        raise Unsupported(f".at[block].{kind}(block)")
    tsets = _block_sets(t, idx)
    if tsets is None:
        raise Unsupported("block assignment with a non-block target index")
    src = view.t
    if src.ndim != t.ndim:
        raise ShapeError("block copy between arrays of different rank")
    same = all((a is None and b is None) or (a is not None and b is not None and a[0] == b[0] and a[1] == b[1]) for a, b in zip(tsets, view.sets))
    if not same:
        interp.event("block-misfit", node, f"target block {tsets} and source block {view.sets} are different slices")
    nd = t.ndim
    sym_axes = [ax for ax in range(nd) if is_sym(t.shape[ax])]
    D = len(sym_axes)
    chi = Poly.const(1)
    for ax in range(nd):
        st = tsets[ax]
        if st is None:
            if is_sym(t.shape[ax]) and t.shape[ax] != src.shape[ax]:
                interp.event("block-misfit", node, f"axis {ax} copied whole between different lengths {src.shape[ax]} -> {t.shape[ax]}")
            continue
        j = sym_axes.index(ax)
        half = ax == nd - 1
        katom = Poly.atom(("k", j, D, "half" if half else "full"))
        side, bound = st
        for arr, who in ((t, "target"), (src, "source")):
            cap = _axis_capacity(interp, arr.shape[ax], half, side)
            ok = decide_nonneg(interp, cap - bound)
            interp.event("block-fit" if ok else "block-misfit", node, f"{who} axis {ax}: {side} block of {bound} modes, capacity {cap} -> {ok}")
        if side == "low":
            c = alg.ind("lt", katom, bound)
            if not half:
                c = c * alg.ind("le", 0, katom)
        else:
            c = alg.ind("le", -bound, katom) * alg.ind("lt", katom, 0)
        chi = chi * c
    if t.cshape_tuple() != src.cshape_tuple() if hasattr(t, "cshape_tuple") else T.cshape(t.shape) != T.cshape(src.shape):
        raise ShapeError("block copy between arrays with different concrete axes")
    data = [(1 - chi) * old + chi * new for old, new in zip(t.data, src.data)]
    meta = dict(t.meta)
    meta.update(src.meta)
    return Tens(t.shape, data, meta)


# ----------------------------------------------------------------------------- array functions

REG = {}


def reg(*names):
    def deco(f):
        for n in names:
            REG[n] = f
        return f

    return deco


def _arr(x):
    if isinstance(x, Tens):
        return x
    if isinstance(x, (list, tuple)):
        return as_tens(x)
    return Tens.scalar(num_to_poly(x))


def _axis(k, default=None):
    a = k.get("axis", default)
    if a is None:
        return None
    if isinstance(a, (tuple, list)):
        return tuple(_I()._static_int(x) for x in a)
    return _I()._static_int(a)


def _shape_arg(s):
    if isinstance(s, (tuple, list)):
        return tuple(T.dim_norm(as_poly(d) if not isinstance(d, int) else d) for d in s)
    return (T.dim_norm(as_poly(s) if not isinstance(s, int) else s),)


@reg("jnp.fft.fftfreq", "jnp.fft.rfftfreq")
def _fftfreq(it, a, k, node, name=None):
    raise RuntimeError  # replaced below


def _mk_freq(kind):
    def f(it, a, k, node):
        n = a[0]
        d = a[1] if len(a) > 1 else k.get("d", 1)
        np_, dp = num_to_poly(n), num_to_poly(d)
        scale = simplify_scalar((np_ * dp).inverse())
        length = np_ if kind == "full" else as_poly(floordiv(it, np_, 2, node)) + 1
        # symmetric-layout mode (C08): pretend every axis carries signed wavenumbers so that formulas
        # can be compared under axis permutations; the halved-axis layout itself is C04's subject
        akind = "full" if getattr(it.ctx, "symmetric_layout", False) else kind
        e = Poly.atom(("k1", akind)) * num_to_poly(scale)
        return Tens((length,), [e], {"freq_n": np_})

    return f


REG["jnp.fft.fftfreq"] = _mk_freq("full")
REG["jnp.fft.rfftfreq"] = _mk_freq("half")


@reg("jnp.meshgrid")
def _meshgrid(it, a, k, node):
    indexing = k.get("indexing", "xy")
    if indexing not in ("ij", "xy"):
        raise _I().RepoRaise("ValueError", node, it.cur_file(), "bad indexing")
    arrs = [_arr(x) for x in a]
    D = len(arrs)
    for x in arrs:
        if x.ndim != 1:
            raise Unsupported("meshgrid of non 1-D arrays")
    axis_of = list(range(D))
    if indexing == "xy" and D >= 2:
        axis_of[0], axis_of[1] = 1, 0
    out_shape = [None] * D
    for j, x in enumerate(arrs):
        out_shape[axis_of[j]] = x.shape[0]
    outs = []
    for j, x in enumerate(arrs):
        if not is_sym(x.shape[0]):
            raise Unsupported("meshgrid of concrete-length arrays")
        e = SO.place_on_axis(x.data[0], axis_of[j], D)
        outs.append(Tens(tuple(out_shape), [e], {"grid_D": D}))
    return outs


@reg("jnp.stack")
def _stack(it, a, k, node):
    xs = a[0]
    axis = _axis(k, a[1] if len(a) > 1 else 0)
    return T.stack([_arr(x) for x in xs], axis)


@reg("jnp.concatenate")
def _concat(it, a, k, node):
    axis = _axis(k, a[1] if len(a) > 1 else 0)
    return T.concatenate([_arr(x) for x in a[0]], axis)


@reg("jnp.expand_dims")
def _expand(it, a, k, node):
    axis = k.get("axis", a[1] if len(a) > 1 else None)
    if isinstance(axis, (tuple, list)):
        axis = tuple(_I()._static_int(x) for x in axis)
    else:
        axis = _I()._static_int(axis)
    return T.expand_dims(_arr(a[0]), axis)


@reg("jnp.squeeze")
def _squeeze(it, a, k, node):
    t = _arr(a[0])
    axis = _axis(k, a[1] if len(a) > 1 else None)
    axes = [i for i, d in enumerate(t.shape) if d == 1] if axis is None else [x % t.ndim for x in (axis if isinstance(axis, tuple) else (axis,))]
    for x in axes:
        if t.shape[x] != 1:
            raise ShapeError("cannot squeeze axis of length != 1")
    return Tens([d for i, d in enumerate(t.shape) if i not in axes], t.data, t.meta)


@reg("jnp.moveaxis")
def _moveaxis(it, a, k, node):
    return T.moveaxis(_arr(a[0]), _I()._static_int(a[1]), _I()._static_int(a[2]))


@reg("jnp.swapaxes")
def _swapaxes(it, a, k, node):
    t = _arr(a[0])
    i, j = _I()._static_int(a[1]) % t.ndim, _I()._static_int(a[2]) % t.ndim
    perm = list(range(t.ndim))
    perm[i], perm[j] = perm[j], perm[i]
    return T.transpose(t, perm)


@reg("jnp.transpose")
def _transpose(it, a, k, node):
    t = _arr(a[0])
    axes = k.get("axes", a[1] if len(a) > 1 else None)
    perm = list(reversed(range(t.ndim))) if axes is None else [_I()._static_int(x) for x in axes]
    return T.transpose(t, perm)


@reg("jnp.reshape")
def _reshape(it, a, k, node):
    shp = a[1] if len(a) > 1 else k.get("shape", k.get("newshape"))
    return T.reshape(_arr(a[0]), _shape_arg(shp))


def _m_reshape(it, a, k, node):
    t = a[0]
    shp = a[1] if len(a) == 2 and isinstance(a[1], (tuple, list)) else tuple(a[1:])
    return T.reshape(t, _shape_arg(shp))


def _m_flatten(it, a, k, node):
    t = a[0]
    if not t.has_sym():
        return Tens((len(t.data),), t.data)
    if len(t.data) != 1:
        raise Unsupported("flatten of an array with several concrete entries and symbolic axes")
    n = Poly.const(1)
    for d in t.shape:
        n = n * d
    meta = dict(t.meta)
    meta["flat_of"] = tuple(t.shape)
    meta["flat_D"] = len(t.sym_axes())
    return Tens((n,), t.data, meta)


def _m_astype(it, a, k, node):
    it.event("astype", node, ast.unparse(node) if node is not None else "")
    t = a[0]
    if isinstance(t, Tens) and _is_float_dtype(k.get("dtype", a[1] if len(a) > 1 else None)):
        t = Tens(t.shape, t.data, dict(t.meta, float=True))
    return t


def _sum_fold(xs):
    r = Poly()
    for x in xs:
        r = r + x
    return r


def _prod_fold(xs):
    r = Poly.const(1)
    for x in xs:
        r = r * x
    return r


@reg("jnp.sum")
def _sum(it, a, k, node):
    t = _arr(a[0])
    axis = _axis(k, a[1] if len(a) > 1 else None)
    where = k.get("where")
    if where is not None:
        t = T.ewise(lambda x, w: x * w, t, _arr(where))
    return T.reduce(t, axis, bool(k.get("keepdims", False)), _sum_fold, SO.sym_sum, SO.partial_sum)


REG["jnp.nansum"] = _sum


@reg("jnp.prod")
def _prod(it, a, k, node):
    t = _arr(a[0])
    axis = _axis(k, a[1] if len(a) > 1 else None)

    def symprod(e, lens):
        if not [x for x in e.atoms() if SO.varies(x)]:
            r = e
            for ln in lens:
                r = Poly.atom(("pow", e, as_poly(ln)))
            return r
        return Poly.atom(("Prod", e, tuple(lens)))

    return T.reduce(t, axis, bool(k.get("keepdims", False)), _prod_fold, symprod)


@reg("jnp.mean", "jnp.nanmean")
def _mean(it, a, k, node):
    t = _arr(a[0])
    axis = _axis(k, a[1] if len(a) > 1 else None)
    where = k.get("where")
    if where is not None:
        w = _arr(where)
        num = _sum(it, [T.ewise(lambda x, y: x * y, t, w)], {"axis": axis}, node)
        den = _sum(it, [T.broadcast_to(w, T.broadcast_shapes(t.shape, w.shape))], {"axis": axis}, node)
        return T.ewise(lambda x, y: x / y, num, den)

    def fold(xs):
        return _sum_fold(xs) / len(xs)

    return T.reduce(t, axis, bool(k.get("keepdims", False)), fold, SO.sym_mean, SO.partial_mean)


def _whole(name):
    def f(it, a, k, node):
        t = _arr(a[0])
        axis = _axis(k, a[1] if len(a) > 1 else None)

        def fold(xs):
            if len(xs) == 1:
                return xs[0]
            return Poly.atom(("multi",) + tuple(xs))

        def symfold(e, lens):
            if len(e.t) == 1:
                ((m, c),) = e.t.items()
                if c == alg.ONE and len(m) == 1 and m[0][0][0] == "multi" and m[0][1] == 1:
                    return Poly.atom((name + "M", tuple(lens)) + tuple(m[0][0][1:]))
            return SO.sym_stat(name, e, lens)

        r = T.reduce(t, axis, bool(k.get("keepdims", False)), fold, symfold)

        def fin(e):
            # statistic over concrete axes only
            if len(e.t) == 1:
                ((m, c),) = e.t.items()
                if c == alg.ONE and len(m) == 1 and m[0][0][0] == "multi" and m[0][1] == 1:
                    return Poly.atom((name + "C",) + tuple(m[0][0][1:]))
            return e

        return r.map(fin)

    return f


REG["jnp.std"] = _whole("Std")
REG["jnp.max"] = _whole("Max")
REG["jnp.min"] = _whole("Min")
REG["jnp.amax"] = REG["jnp.max"]
REG["jnp.amin"] = REG["jnp.min"]
REG["jnp.var"] = _whole("Var")


@reg("jnp.linalg.norm")
def _norm(it, a, k, node):
    t = _arr(a[0])
    axis = _axis(k, a[1] if len(a) > 1 else None)
    if "ord" in k and k["ord"] not in (None, 2):
        raise Unsupported("norm with ord")
    sq = t.map(lambda e: e * e if alg.is_real(e) else alg.absval(e) ** 2)
    s = T.reduce(sq, axis, bool(k.get("keepdims", False)), _sum_fold, SO.sym_sum)
    log_singular(it, node, "norm (sqrt of a sum of squares)", s)
    return s.map(alg.sqrt)


def _ew1(fn):
    def f(it, a, k, node):
        return _arr(a[0]).map(fn)

    return f


REG["jnp.abs"] = _ew1(alg.absval)
REG["jnp.absolute"] = REG["jnp.abs"]
REG["jnp.exp"] = _ew1(alg.exp)
REG["jnp.expm1"] = _ew1(lambda e: alg.exp(e) - 1)
def _sing1(kind, fn):
    def f(it, a, k, node):
        log_singular(it, node, kind, _arr(a[0]))
        return _arr(a[0]).map(fn)

    return f


REG["jnp.sqrt"] = _sing1("sqrt", alg.sqrt)
REG["jnp.real"] = _ew1(alg.real)
REG["jnp.imag"] = _ew1(alg.imag)
REG["jnp.conj"] = _ew1(alg.conj)
REG["jnp.conjugate"] = REG["jnp.conj"]
REG["jnp.square"] = _ew1(lambda e: e * e)
REG["jnp.negative"] = lambda it, a, k, node: unop(it, ast.USub(), a[0], node)
REG["jnp.invert"] = _ew1(lambda e: 1 - e)
REG["jnp.logical_not"] = REG["jnp.invert"]
for _n in ("sin", "cos", "tan", "tanh", "log", "log10", "sign", "floor", "ceil", "rint", "trunc", "isnan", "isfinite", "arctan", "sinh", "cosh"):
    REG["jnp." + _n] = _ew1(lambda e, _n=_n: alg.fn(_n, e))
for _n in ("log", "log10"):
    REG["jnp." + _n] = _sing1(_n, lambda e, _n=_n: alg.fn(_n, e))


@reg("jnp.round", "jnp.around")
def _round(it, a, k, node):
    dec = a[1] if len(a) > 1 else k.get("decimals", 0)
    return _arr(a[0]).map(lambda e: alg.fn("round", e, num_to_poly(dec)))


@reg("jnp.power")
def _power(it, a, k, node):
    if not _smooth_exponent(a[1]):
        log_singular(it, node, "power", _arr(a[0]))
    return T.ewise(lambda x, y: x**y, _arr(a[0]), _arr(a[1]))


def _ew2(fn):
    def f(it, a, k, node):
        return T.ewise(fn, _arr(a[0]), _arr(a[1]))

    return f


REG["jnp.minimum"] = _ew2(lambda x, y: alg.fn("minimum", *sorted([x, y], key=repr)))
REG["jnp.maximum"] = _ew2(lambda x, y: alg.fn("maximum", *sorted([x, y], key=repr)))
# the arithmetic ufuncs are the operators (this also keeps structural Terms, scan carries ... working)
REG["jnp.multiply"] = lambda it, a, k, node: binop(it, ast.Mult(), a[0], a[1], node)
REG["jnp.add"] = lambda it, a, k, node: binop(it, ast.Add(), a[0], a[1], node)
REG["jnp.subtract"] = lambda it, a, k, node: binop(it, ast.Sub(), a[0], a[1], node)
REG["jnp.divide"] = lambda it, a, k, node: binop(it, ast.Div(), a[0], a[1], node)
REG["jnp.logical_and"] = _ew2(lambda x, y: x * y)
REG["jnp.logical_or"] = _ew2(lambda x, y: x + y - x * y)


@reg("jnp.where")
def _where(it, a, k, node):
    if len(a) != 3:
        raise Unsupported("one-argument where")
    wl = getattr(it.ctx, "where_log", None)
    if wl is not None:
        wl.append({"file": it.cur_file(), "line": getattr(node, "lineno", None), "fn": it.cur_fn(), "cond": _arr(_b2p(a[0])), "a": _arr(a[1]), "b": _arr(a[2]), "src": ast.unparse(node) if node is not None else ""})
    return T.ewise(lambda c, x, y: c * x + (1 - c) * y, _arr(_b2p(a[0])), _arr(a[1]), _arr(a[2]))


@reg("jnp.ones", "jnp.zeros", "jnp.empty")
def _ones(it, a, k, node, _v=None):
    raise RuntimeError


def _mk_full(v):
    def f(it, a, k, node):
        shp = a[0] if a else k["shape"]
        return Tens.full(_shape_arg(shp), v)

    return f


REG["jnp.ones"] = _mk_full(1)
REG["jnp.zeros"] = _mk_full(0)


def _mk_like(v):
    def f(it, a, k, node):
        t = _arr(a[0])
        return Tens.full(t.shape, v)

    return f


REG["jnp.ones_like"] = _mk_like(1)
REG["jnp.zeros_like"] = _mk_like(0)


@reg("jnp.full")
def _full(it, a, k, node):
    return Tens.full(_shape_arg(a[0]), num_to_poly(a[1]))


@reg("jnp.array", "jnp.asarray")
def _array(it, a, k, node):
    t = _arr(a[0])
    if _is_float_dtype(k.get("dtype", a[1] if len(a) > 1 else None)):
        t = Tens(t.shape, t.data, dict(t.meta, float=True))
    return t


@reg("jnp.ndim")
def _ndim(it, a, k, node):
    x = a[0]
    if isinstance(x, Tens):
        return x.ndim
    if isinstance(x, (list, tuple)):
        return as_tens(x).ndim
    if isinstance(x, _I().Term):
        return _I().Term("jnp.ndim", x)  # the rank of a structural leaf is unknown
    return 0


@reg("jnp.shape")
def _shape_fn(it, a, k, node):
    x = a[0]
    if isinstance(x, Tens):
        return tuple(x.shape)
    if isinstance(x, (list, tuple)):
        return tuple(as_tens(x).shape)
    return ()


@reg("jnp.diag")
def _diag(it, a, k, node):
    t = _arr(a[0])
    if t.has_sym():
        raise Unsupported("diag of symbolic-length array")
    if t.ndim == 1:
        n = t.shape[0]
        return Tens((n, n), [t.data[i] if i == j else Poly() for i in range(n) for j in range(n)])
    if t.ndim == 2:
        n = min(t.shape)
        return Tens((n,), [t.at((i, i)) for i in range(n)])
    raise ShapeError("diag input must be 1- or 2-d")


def _tri(keep):
    def f(it, a, k, node):
        t = _arr(a[0])
        kk = _I()._static_int(k.get("k", a[1] if len(a) > 1 else 0))
        if t.ndim < 2 or is_sym(t.shape[-1]) or is_sym(t.shape[-2]):
            raise Unsupported("triu/tril of an array whose last two axes are not concrete")
        data = []
        for idx in t.cidx():
            i, j = idx[-2], idx[-1]
            data.append(t.at(idx) if keep(i, j, kk) else Poly())
        return Tens(t.shape, data, t.meta)

    return f


REG["jnp.triu"] = _tri(lambda i, j, k: j - i >= k)
REG["jnp.tril"] = _tri(lambda i, j, k: j - i <= k)


@reg("jnp.trace")
def _trace(it, a, k, node):
    t = _arr(a[0])
    if t.ndim != 2 or t.has_sym():
        raise Unsupported("trace of a non-matrix")
    return Tens.scalar(_sum_fold([t.at((i, i)) for i in range(min(t.shape))]))


@reg("jnp.outer")
def _outer(it, a, k, node):
    x, y = _arr(a[0]), _arr(a[1])
    if x.ndim != 1 or y.ndim != 1 or x.has_sym() or y.has_sym():
        raise Unsupported("outer of non-vectors")
    return Tens((x.shape[0], y.shape[0]), [p * q for p in x.data for q in y.data])


@reg("jnp.cross")
def _cross(it, a, k, node):
    x, y = _arr(a[0]), _arr(a[1])
    axis = _axis(k, -1)
    if axis not in (-1, x.ndim - 1, 0):
        raise Unsupported("cross along an inner axis")
    if axis == 0:
        xs = [T.getitem(x, i) for i in range(3)]
        ys = [T.getitem(y, i) for i in range(3)]
        m = lambda p, q: T.ewise(lambda u, v: u * v, p, q)
        sub = lambda p, q: T.ewise(lambda u, v: u - v, p, q)
        return T.stack([sub(m(xs[1], ys[2]), m(xs[2], ys[1])), sub(m(xs[2], ys[0]), m(xs[0], ys[2])), sub(m(xs[0], ys[1]), m(xs[1], ys[0]))], 0)
    raise Unsupported("cross along the last axis")


@reg("jnp.flip")
def _flip(it, a, k, node):
    t = _arr(a[0])
    axis = _axis(k, a[1] if len(a) > 1 else None)
    axes = range(t.ndim) if axis is None else ([axis % t.ndim] if isinstance(axis, int) else [x % t.ndim for x in axis])
    for ax in axes:
        if is_sym(t.shape[ax]):
            it.event("grid-axis-reordering", node, "flip")
            raise Unsupported("flip along a symbolic (grid) axis")
    data = []
    for idx in t.cidx():
        src = [(t.shape[ax] - 1 - i) if (ax in axes and not is_sym(t.shape[ax])) else i for ax, i in enumerate(idx)]
        data.append(t.at(src))
    return Tens(t.shape, data, t.meta)


@reg("jnp.roll")
def _roll(it, a, k, node):
    t = _arr(a[0])
    sh = a[1] if len(a) > 1 else k["shift"]
    shp = sh.data[0] if isinstance(sh, Tens) and sh.shape == () else sh
    if isinstance(shp, Poly) and shp.as_number() is None and any(b[0] == "idx" for b in shp.all_atoms()):
        # shift by a loop / scan index (a tracer in the real program): kept as a structure for the window rules
        return _I().Term("roll", a[0], shp, k.get("axis", a[2] if len(a) > 2 else None))
    shift = _I()._static_int(sh)
    axis = _axis(k, a[2] if len(a) > 2 else None)
    if axis is None or is_sym(t.shape[axis % t.ndim]):
        it.event("grid-axis-reordering", node, "roll")
        raise Unsupported("roll along a symbolic (grid) axis")
    ax = axis % t.ndim
    n = t.shape[ax]
    data = []
    for idx in t.cidx():
        src = list(idx)
        src[ax] = (idx[ax] - shift) % n
        data.append(t.at(src))
    return Tens(t.shape, data, t.meta)


@reg("jnp.cumsum")
def _cumsum(it, a, k, node):
    t = _arr(a[0])
    axis = _axis(k, a[1] if len(a) > 1 else None)
    if axis is None or is_sym(t.shape[axis % t.ndim]):
        raise Unsupported("cumsum along a symbolic axis")
    ax = axis % t.ndim
    data = []
    for idx in t.cidx():
        tot = Poly()
        for j in range(idx[ax] + 1):
            src = list(idx)
            src[ax] = j
            tot = tot + t.at(src)
        data.append(tot)
    return Tens(t.shape, data, t.meta)


@reg("jnp.matmul")
def _matmul(it, a, k, node):
    x, y = _arr(a[0]), _arr(a[1])
    if x.ndim == 2 and y.ndim == 2:
        return T.einsum("ij,jk->ik", x, y)
    if x.ndim == 2 and y.ndim == 1:
        return T.einsum("ij,j->i", x, y)
    if x.ndim == 1 and y.ndim == 2:
        return T.einsum("i,ij->j", x, y)
    raise Unsupported("matmul of higher-rank arrays")


@reg("jnp.isscalar")
def _isscalar(it, a, k, node):
    return not isinstance(a[0], (Tens, list, tuple))


@reg("jnp.atleast_1d")
def _atleast1d(it, a, k, node):
    t = _arr(a[0])
    return t if t.ndim >= 1 else Tens((1,), t.data, t.meta)


@reg("jnp.eye", "jnp.identity")
def _eye(it, a, k, node):
    n = _I()._static_int(a[0])
    return Tens((n, n), [Poly.const(1 if i == j else 0) for i in range(n) for j in range(n)])


_fresh = [0]


def fresh_tag(prefix):
    _fresh[0] += 1
    return f"{prefix}{_fresh[0]}"


@reg("jnp.arange")
def _arange(it, a, k, node):
    if len(a) == 1:
        lo, hi = 0, a[0]
    else:
        lo, hi = a[0], a[1]
    if len(a) > 2:
        raise Unsupported("arange with step")
    lo_p, hi_p = num_to_poly(lo), num_to_poly(hi)
    n = (hi_p - lo_p).as_number()
    meta = {"float": True} if _is_float_dtype(k.get("dtype")) else {}
    if n is not None and lo_p.as_number() is not None:
        return Tens((int(n),), [Poly.const(lo_p.as_number() + i) for i in range(int(n))], meta)
    return Tens((hi_p - lo_p,), [lo_p + Poly.atom(("idx", "ar"))], meta)


def _is_float_dtype(d):
    """an explicit floating / complex dtype argument (jnp.float32, float, x.dtype of an array ...): the values are
    floats even when they happen to be whole numbers - x ** them goes through lax.pow, not integer_pow"""
    if d is None:
        return False
    nm = getattr(d, "name", None) or (d if isinstance(d, str) else "")
    nm = str(nm)
    return any(t in nm for t in ("float", "complex", "dtype_of_array", "inexact")) or d is float or d is complex


@reg("jnp.linspace")
def _linspace(it, a, k, node):
    start, stop = num_to_poly(a[0]), num_to_poly(a[1])
    num = a[2] if len(a) > 2 else k.get("num", 50)
    endpoint = k.get("endpoint", True)
    nump = num_to_poly(num)
    div = nump - 1 if endpoint else nump
    nn = nump.as_number()
    if nn is not None and Fr(nn).denominator == 1 and 0 < int(nn) <= 64 and not div.is_zero():
        return Tens((int(nn),), [start + i * (stop - start) / div for i in range(int(nn))], {})
    e = start + Poly.atom(("idx", "lin")) * (stop - start) / div
    return Tens((nump,), [e], {})


@reg("jnp.repeat")
def _repeat(it, a, k, node):
    t = _arr(a[0])
    n = a[1] if len(a) > 1 else k["repeats"]
    axis = _axis(k, a[2] if len(a) > 2 else None)
    if axis is None:
        raise Unsupported("repeat without axis")
    axis %= t.ndim
    if t.shape[axis] != 1:
        raise Unsupported("repeat of an axis longer than 1")
    shape = list(t.shape)
    shape[axis] = T.dim_norm(num_to_poly(n))
    if not is_sym(shape[axis]):
        return T.concatenate([t] * shape[axis], axis)
    return Tens(shape, t.data, t.meta)


@reg("jnp.einsum")
def _einsum(it, a, k, node):
    return T.einsum(a[0], *[_arr(x) for x in a[1:]])


@reg("jnp.vdot")
def _vdot(it, a, k, node):
    # vdot flattens both operands and conjugates the first: sum(conj(x) * y) over all entries
    x, y = _arr(a[0]), _arr(a[1])
    if tuple(map(str, x.shape)) != tuple(map(str, y.shape)):
        raise ShapeError(f"vdot of arrays with shapes {x.shape} and {y.shape}")
    p = T.ewise(lambda u, v: alg.conj(u) * v, x, y)
    return T.reduce(p, None, False, _sum_fold, SO.sym_sum)


@reg("jnp.dot", "jnp.inner")
def _dot(it, a, k, node):
    x, y = _arr(a[0]), _arr(a[1])
    if x.ndim != 1 or y.ndim != 1:
        raise Unsupported("dot of non-vectors")
    p = T.ewise(lambda u, v: u * v, x, y)
    return T.reduce(p, 0, False, _sum_fold, SO.sym_sum)


@reg("jnp.linalg.inv")
def _inv(it, a, k, node):
    t = _arr(a[0])
    if t.ndim != 2 or t.has_sym() or t.shape[0] != t.shape[1]:
        raise Unsupported("inv of a non-square / symbolic matrix")
    n = t.shape[0]
    diag = all(t.at((i, j)).is_zero() for i in range(n) for j in range(n) if i != j)
    if diag:
        return Tens((n, n), [t.at((i, i)).inverse() if i == j else Poly() for i in range(n) for j in range(n)])
    return Tens((n, n), [Poly.atom(("fn", "matinv", i, j) + tuple(t.data)) for i in range(n) for j in range(n)])


@reg("jnp.pad")
def _pad(it, a, k, node):
    I = _I()
    return I.Term("pad", a[0], a[1] if len(a) > 1 else k.get("pad_width"), k.get("mode", "constant"))


# ---- FFT


@reg("jnp.fft.rfftn")
def _rfftn(it, a, k, node):
    t = _arr(a[0])
    axes = k.get("axes", a[2] if len(a) > 2 else None)
    s = k.get("s", a[1] if len(a) > 1 else None)
    norm = k.get("norm")
    return SO.fft_forward(it, t, axes, s, norm, node)


@reg("jnp.fft.irfftn")
def _irfftn(it, a, k, node):
    t = _arr(a[0])
    axes = k.get("axes", a[2] if len(a) > 2 else None)
    s = k.get("s", a[1] if len(a) > 1 else None)
    norm = k.get("norm")
    return SO.fft_inverse(it, t, axes, s, norm, node)


for _n in ("fft", "ifft", "fftn", "ifftn", "rfft", "irfft", "fft2", "ifft2", "rfft2", "irfft2", "fftshift"):
    def _other_fft(it, a, k, node, _n=_n):
        it.event("other-fft-call", node, _n)
        raise Unsupported(f"jnp.fft.{_n} has no transfer function (only rfftn/irfftn are used by the package)")

    REG["jnp.fft." + _n] = _other_fft


# ---- random


def _use_key(it, key, node, how):
    I = _I()
    if not isinstance(key, I.KeyVal):
        raise Unsupported(f"PRNG key argument is {type(key).__name__}")
    uses = it.ctx.key_uses.setdefault(key.lineage, [])
    uses.append((how, it.cur_file(), getattr(node, "lineno", None), it.cur_fn()))
    if len(uses) > 1:
        it.event("key-reuse", node, f"{key} used by {[u[0] for u in uses]}")


@reg("jr.split")
def _split(it, a, k, node):
    I = _I()
    key = a[0]
    n = a[1] if len(a) > 1 else k.get("num", 2)
    if isinstance(key, I.Term):
        return I.Term("split", key, n)
    n = I._static_int(n)
    _use_key(it, key, node, "split")
    return [I.KeyVal(key.lineage + (("split", i, n),)) for i in range(n)]


def _mk_draw(kind):
    def f(it, a, k, node):
        I = _I()
        key = a[0]
        shape = k.get("shape", a[1] if len(a) > 1 else ())
        _use_key(it, key, node, kind)
        shape = _shape_arg(shape) if shape != () else ()
        cs = T.cshape(shape)
        data = []
        for idx in itertools.product(*[range(d) for d in cs]):
            arr = any(is_sym(d) for d in shape)
            data.append(Poly.atom(("draw", kind, key.lineage, idx, "A" if arr else "S")))
        t = Tens(shape, data)
        if kind == "uniform":
            lo = k.get("minval", a[3] if len(a) > 3 else 0)
            hi = k.get("maxval", a[4] if len(a) > 4 else 1)
            lo, hi = _arr(lo), _arr(hi)
            t = T.ewise(lambda u, l, h: l + (h - l) * u, t, lo, hi)
        return t

    return f


REG["jr.uniform"] = _mk_draw("uniform")
REG["jr.normal"] = _mk_draw("normal")


@reg("jr.PRNGKey", "jr.key")
def _prngkey(it, a, k, node):
    it.event("prngkey-in-library", node, "")
    return _I().KeyVal((("literal", repr(a[0])),))


# ---- pytrees, vmap, scan


def tree_map(it, f, trees, node):
    I = _I()
    t0 = trees[0]
    if t0 is None:
        return None
    if isinstance(t0, (tuple, list)):
        for t in trees[1:]:
            if not isinstance(t, (tuple, list)) or len(t) != len(t0):
                raise I.RepoRaise("ValueError", node, it.cur_file(), "tree structure mismatch")
        out = [tree_map(it, f, [t[i] for t in trees], node) for i in range(len(t0))]
        return type(t0)(out) if isinstance(t0, (tuple, list)) else out
    if isinstance(t0, dict):
        return {kk: tree_map(it, f, [t[kk] for t in trees], node) for kk in t0}
    return it.call(f, list(trees), {}, node)


def tree_leaves(x):
    if x is None:
        return []
    if isinstance(x, (tuple, list)):
        out = []
        for y in x:
            out.extend(tree_leaves(y))
        return out
    if isinstance(x, dict):
        out = []
        for kk in sorted(x):
            out.extend(tree_leaves(x[kk]))
        return out
    return [x]


@reg("jtu.tree_map", "jax.tree.map", "jax.tree_map")
def _tree_map(it, a, k, node):
    return tree_map(it, a[0], list(a[1:]), node)


@reg("jtu.tree_leaves", "jax.tree.leaves")
def _tree_leaves(it, a, k, node):
    return tree_leaves(a[0])


@reg("jax.vmap", "eqx.filter_vmap")
def _vmap(it, a, k, node):
    I = _I()
    f = a[0]
    in_axes = k.get("in_axes", a[1] if len(a) > 1 else 0)
    out_axes = k.get("out_axes", 0)
    if out_axes != 0:
        raise Unsupported("vmap out_axes")

    def run(it2, args, kwargs):
        if kwargs:
            raise Unsupported("vmap call with keyword arguments")
        axes = list(in_axes) if isinstance(in_axes, (tuple, list)) else [in_axes] * len(args)
        if len(axes) != len(args):
            raise I.RepoRaise("ValueError", node, it2.cur_file(), "vmap in_axes length")
        if I.contains_term(args):
            return I.Term("vmap_call", f, in_axes, list(args))
        n = None
        arrs = []
        for x, ax in zip(args, axes):
            if ax is None:
                arrs.append(None)
                continue
            if ax != 0:
                raise Unsupported("vmap in_axes other than 0/None")
            t = _arr(x)
            if t.ndim == 0:
                raise I.RepoRaise("ValueError", node, it2.cur_file(), "vmap over a 0-d array")
            if n is None:
                n = t.shape[0]
            elif n != t.shape[0]:
                raise I.RepoRaise("ValueError", node, it2.cur_file(), "vmap axis sizes differ")
            arrs.append(t)
        if n is None:
            raise Unsupported("vmap without mapped argument")
        if is_sym(n):
            call_args = [x if t is None else Tens(t.shape[1:], t.data, t.meta) for x, t in zip(args, arrs)]
            r = it2.call(f, call_args, {}, node)
            idxs = sorted({b for t in arrs if t is not None for e in t.data for b in e.all_atoms() if b[0] == "idx"}, key=repr)

            def add(leaf):
                if isinstance(leaf, I.Term):
                    # a structure (e.g. a dynamic window) per mapped index: the same shape a scan over arange produces
                    if len(idxs) != 1:
                        raise Unsupported("vmap of a structural result without a unique mapped index")
                    return I.Term("scan_map", leaf, idxs[0], n)
                return _add_axis(leaf, n)

            return tree_map_py(add, r)
        outs = []
        for i in range(n):
            call_args = [x if t is None else T.getitem(t, i) for x, t in zip(args, arrs)]
            outs.append(it2.call(f, call_args, {}, node))
        return _stack_trees(outs)

    return I.PyClosure(run, "vmapped")


@reg("lax.map", "jax.lax.map")
def _lax_map(it, a, k, node):
    # sequential map over the leading axis: the same function of the inputs as vmap
    f = a[0] if a else k["f"]
    xs = a[1] if len(a) > 1 else k["xs"]
    return it.call(_vmap(it, [f], {}, node), [xs], {}, node)


def _add_axis(leaf, n):
    t = _arr(leaf)
    return Tens((n,) + t.shape, t.data, t.meta)


def tree_map_py(f, x):
    if x is None:
        return None
    if isinstance(x, (tuple, list)):
        return type(x)(tree_map_py(f, y) for y in x)
    if isinstance(x, dict):
        return {kk: tree_map_py(f, v) for kk, v in x.items()}
    return f(x)


def _stack_trees(outs):
    o0 = outs[0]
    if o0 is None:
        return None
    if isinstance(o0, (tuple, list)):
        return type(o0)(_stack_trees([o[i] for o in outs]) for i in range(len(o0)))
    return T.stack([_arr(o) for o in outs], 0)


@reg("lax.scan")
def _scan(it, a, k, node):
    return SO.scan(it, a, k, node)


@reg("lax.dynamic_slice", "jax.lax.dynamic_slice")
def _dslice(it, a, k, node):
    I = _I()
    names = ["operand", "start_indices", "slice_sizes"]
    kw = dict(zip(names, a))
    kw.update(k)
    return I.Term("dynamic_slice", kw.get("operand"), tuple(kw.get("start_indices")), tuple(kw.get("slice_sizes")))


@reg("lax.dynamic_slice_in_dim", "jax.lax.dynamic_slice_in_dim")
def _dsl(it, a, k, node):
    I = _I()
    names = ["operand", "start_index", "slice_size", "axis"]
    kw = dict(zip(names, a))
    kw.update(k)
    return I.Term("dynamic_slice_in_dim", kw.get("operand"), kw.get("start_index"), kw.get("slice_size"), kw.get("axis", 0))


@reg("lax.stop_gradient", "jax.lax.stop_gradient")
def _stopgrad(it, a, k, node):
    it.event("stop-gradient", node, "")
    return a[0]


@reg("jax.jit", "eqx.filter_jit", "jax.checkpoint", "jax.remat")
def _jit(it, a, k, node):
    return a[0]


@reg("warnings.warn")
def _warn(it, a, k, node):
    return None


@reg("typing.TypeVar")
def _typevar(it, a, k, node):
    return _I().Ext("typing.TypeVarInstance")


@reg("functools.partial")
def _partial(it, a, k, node):
    I = _I()
    f, pre, prek = a[0], list(a[1:]), dict(k)
    return I.PyClosure(lambda it2, args, kwargs: it2.call(f, pre + list(args), {**prek, **kwargs}, node), "partial")


@reg("math.sqrt")
def _msqrt(it, a, k, node):
    return simplify_scalar(alg.sqrt(num_to_poly(a[0])))


@reg("math.prod")
def _mprod(it, a, k, node):
    r = 1
    for x in it.iterate(a[0], node):
        r = binop(it, ast.Mult(), r, x, node)
    return r


@reg("math.ceil", "math.floor")
def _mceil(it, a, k, node):
    import math as _m

    x = a[0]
    if is_num(x):
        return _m.ceil(x) if "ceil" in ast.unparse(node.func) else _m.floor(x)
    raise Unsupported("math.ceil/floor of a symbolic value")


@reg("jnp.broadcast_to")
def _bcast(it, a, k, node):
    return T.broadcast_to(_arr(a[0]), _shape_arg(a[1]))


@reg("jnp.full_like")
def _full_like(it, a, k, node):
    return Tens.full(_arr(a[0]).shape, num_to_poly(a[1]))


@reg("jnp.clip")
def _clip(it, a, k, node):
    lo = a[1] if len(a) > 1 else k.get("min", k.get("a_min"))
    hi = a[2] if len(a) > 2 else k.get("max", k.get("a_max"))
    return _arr(a[0]).map(lambda e: alg.fn("clip", e, num_to_poly(lo) if lo is not None else Poly.sym("-inf"), num_to_poly(hi) if hi is not None else Poly.sym("inf")))


@reg("jnp.tile")
def _tile(it, a, k, node):
    t = _arr(a[0])
    reps = a[1] if isinstance(a[1], (tuple, list)) else (a[1],)
    reps = [_I()._static_int(r) for r in reps]
    while len(reps) < t.ndim:
        reps = [1] + reps
    out = t
    for ax, r in enumerate(reps[-t.ndim:] if t.ndim else []):
        if r != 1:
            out = T.concatenate([out] * r, ax)
    return out


@reg("itertools.product")
def _product(it, a, k, node):
    rep = _I()._static_int(k.get("repeat", 1))
    return [tuple(x) for x in itertools.product(*[it.iterate(x, node) for x in a], repeat=rep)]


@reg("importlib.metadata.version")
def _version(it, a, k, node):
    return "<version>"


@reg("eqx.field")
def _field(it, a, k, node):
    return k.get("default")


# ----------------------------------------------------------------------------- dispatch

TENS_METHODS = {
    "reshape": _m_reshape,
    "flatten": _m_flatten,
    "ravel": _m_flatten,
    "astype": _m_astype,
    "sum": _sum,
    "mean": _mean,
    "max": REG["jnp.max"],
    "min": REG["jnp.min"],
    "std": REG["jnp.std"],
    "conj": REG["jnp.conj"],
    "squeeze": _squeeze,
    "transpose": _transpose,
    "item": lambda it, a, k, node: _coerce(it, a[0], node, "item"),
    "tolist": lambda it, a, k, node: _coerce(it, a[0], node, "tolist"),
}

STRUCTURAL_TERM_OPS = {
    "jnp.broadcast_to",
    "jnp.shape",
    "jnp.tile",
    "jnp.concatenate",
    "jnp.expand_dims",
    "jnp.repeat",
    "jnp.stack",
    "jnp.zeros_like",
    "jnp.ones_like",
    "jnp.moveaxis",
    "jnp.reshape",
    "jnp.sum",
    "jnp.mean",
    "jnp.abs",
    "jnp.where",
    "jnp.squeeze",
    "jnp.swapaxes",
    "jnp.transpose",
    "jnp.flip",
    "jnp.roll",
    "jnp.fft.rfftn",
    "jnp.fft.irfftn",
}


def _coerce(it, v, node, how):
    it.event("coerce-array-to-python", node, how)
    if isinstance(v, Tens) and len(v.data) == 1 and not v.has_sym():
        return simplify_scalar(v.data[0])
    return v


def call_ext(interp, name, args, kwargs, node):
    I = _I()
    name = I.ext_canon(name)
    if name.startswith("jaxtyping.") or name.startswith("typing.") and name != "typing.TypeVar":
        return I.Ext(name)
    if name in STRUCTURAL_TERM_OPS and (I.contains_term(args) or I.contains_term(list(kwargs.values()))):
        return I.Term(name, list(args), kwargs)
    f = REG.get(name)
    if f is None:
        interp.event("unknown-library-call", node, name)
        raise interp.err(f"no transfer function for library call {name}", node)
    return f(interp, args, kwargs, node)


def call_ufun(interp, f, args, kwargs, node):
    I = _I()
    if f.mode == "term" or I.contains_term(args):
        return I.Term("call", f.name, list(args), kwargs)
    t = _arr(args[0])
    extra = tuple(x for ar in args[1:] for x in _arr(ar).data)
    if not t.shape or is_sym(t.shape[0]):
        return t.map(lambda e: Poly.atom(("fn", f.name, 0) + tuple(t.data) + extra))
    C = t.shape[0]
    rest_c = T.cshape(t.shape[1:])
    if any(d != 1 for d in rest_c):
        raise Unsupported("uninterpreted function on an array with several concrete axes")
    outC = f.out_channels or C
    return Tens((outC,) + t.shape[1:], [Poly.atom(("fn", f.name, c) + tuple(t.data) + extra) for c in range(outC)], t.meta)


BUILTINS = {
    "len", "range", "enumerate", "zip", "tuple", "list", "sum", "min", "max", "isinstance", "print", "reversed", "set", "abs",
    "float", "int", "str", "any", "all", "sorted", "dict", "bool", "map", "slice", "complex", "round", "type", "hasattr",
    "getattr", "callable", "ValueError", "NotImplementedError", "TypeError", "DeprecationWarning", "object", "bytes", "issubclass",
}


def call_builtin(interp, name, args, kwargs, node):
    I = _I()
    a = args
    if name == "len":
        x = a[0]
        if isinstance(x, Tens):
            if x.ndim == 0:
                raise RepoRaiseTE(interp, node, "len() of unsized object")
            return simplify_scalar(x.shape[0]) if is_sym(x.shape[0]) else x.shape[0]
        if isinstance(x, (list, tuple, dict, str, set, range)):
            return len(x)
        if isinstance(x, (Poly, int, Fr)):
            raise RepoRaiseTE(interp, node, "len() of a scalar")
        if isinstance(x, I.Term):
            return I.Term("len", x)
        raise Unsupported(f"len of {type(x).__name__}")
    if name == "range":
        return range(*[I._static_int(x) for x in a])
    if name == "enumerate":
        start = I._static_int(a[1]) if len(a) > 1 else kwargs.get("start", 0)
        return list(enumerate(interp.iterate(a[0], node), start))
    if name == "zip":
        lazies = [x for x in a if isinstance(x, LazyIter)]
        if lazies:
            finite = [interp.iterate(x, node) for x in a if not isinstance(x, LazyIter)]
            if not finite:
                raise Unsupported("zip of unbounded iterators only")
            n_ = min(len(s_) for s_ in finite)
            seqs = [x.take(n_) if isinstance(x, LazyIter) else interp.iterate(x, node)[:n_] for x in a]
            return list(zip(*seqs))
        seqs = [interp.iterate(x, node) for x in a]
        if kwargs.get("strict") and len({len(s) for s in seqs}) > 1:
            raise I.RepoRaise("ValueError", node, interp.cur_file(), "zip() arguments have different lengths")
        if len({len(s) for s in seqs}) > 1:
            interp.event("zip-length-mismatch", node, str([len(s) for s in seqs]))
        return list(zip(*seqs))
    if name == "tuple":
        return tuple(interp.iterate(a[0], node)) if a else ()
    if name == "list":
        return list(interp.iterate(a[0], node)) if a else []
    if name == "set":
        return set(interp.iterate(a[0], node)) if a else set()
    if name == "dict":
        d = dict(a[0]) if a else {}
        d.update(kwargs)
        return d
    if name == "reversed":
        return list(reversed(interp.iterate(a[0], node)))
    if name == "sorted":
        return sorted(interp.iterate(a[0], node))
    if name == "sum":
        xs = interp.iterate(a[0], node)
        acc = a[1] if len(a) > 1 else kwargs.get("start", 0)
        for x in xs:
            acc = binop(interp, ast.Add(), acc, x, node)
        return acc
    if name in ("min", "max"):
        xs = interp.iterate(a[0], node) if len(a) == 1 else list(a)
        best = xs[0]
        for x in xs[1:]:
            r = cmp_scalar(interp, "lt" if name == "min" else "gt", x, best, node)
            if not isinstance(r, bool):
                r = interp.decide_cond(as_poly(r), node)
            if r:
                best = x
        return best
    if name == "abs":
        x = a[0]
        if is_num(x):
            return abs(x)
        if isinstance(x, Poly):
            return alg.absval(x)
        if isinstance(x, Tens):
            return x.map(alg.absval)
    if name == "isinstance":
        return _isinstance(interp, a[0], a[1], node)
    if name == "issubclass":
        return isinstance(a[0], I.ClassVal) and isinstance(a[1], I.ClassVal) and a[0].is_subclass(a[1])
    if name == "print":
        return None
    if name in ("float", "int", "bool", "complex"):
        x = a[0] if a else 0
        if isinstance(x, bool):
            return x if name == "bool" else int(x)
        if is_num(x):
            if name == "int":
                return int(x)
            if name == "bool":
                return bool(x)
            return Fr(x) if name == "float" else x
        if isinstance(x, (Poly, Tens)):
            interp.event("coerce-array-to-python", node, name, obj=x if isinstance(x, Poly) else (x.data[0] if x.data else None))
            if name == "bool":
                return interp.truth(x, node)
            if isinstance(x, Tens):
                if len(x.data) != 1 or x.has_sym():
                    raise RepoRaiseTE(interp, node, "only size-1 arrays can be converted")
                return simplify_scalar(x.data[0])
            return x
        if isinstance(x, str):
            raise Unsupported("number parsing")
    if name == "str":
        return "<str>"
    if name == "any":
        return any(interp.truth(x, node) for x in interp.iterate(a[0], node))
    if name == "all":
        return all(interp.truth(x, node) for x in interp.iterate(a[0], node))
    if name == "map":
        return [interp.call(a[0], [x], {}, node) for x in interp.iterate(a[1], node)]
    if name == "slice":
        return slice(*a)
    if name == "round":
        x = a[0]
        if is_num(x):
            return round(x, *[I._static_int(y) for y in a[1:]])
        return alg.fn("round", num_to_poly(x))
    if name == "callable":
        return isinstance(a[0], (I.FuncVal, I.BoundMethod, I.ClassVal, I.PyClosure, I.UFun, I.Ext)) or (isinstance(a[0], I.Obj) and a[0].cls.find("__call__") is not None)
    if name == "hasattr":
        try:
            interp.getattr(a[0], a[1], node)
            return True
        except Exception:
            return False
    if name == "getattr":
        try:
            return interp.getattr(a[0], a[1], node)
        except Exception:
            if len(a) > 2:
                return a[2]
            raise
    if name == "type":
        x = a[0]
        if isinstance(x, I.Obj):
            return x.cls
        raise Unsupported("type() of a non-object")
    if name in ("ValueError", "NotImplementedError", "TypeError", "DeprecationWarning", "object"):
        return I.Ext("builtins." + name)
    raise Unsupported(f"builtin {name}")


def _isinstance(interp, x, cls, node):
    I = _I()
    if isinstance(cls, (tuple, list)):
        return any(_isinstance(interp, x, c, node) for c in cls)
    if isinstance(cls, I.Builtin):
        n = cls.name
        if n == "float":
            if isinstance(x, Fr):
                return True
            if isinstance(x, Poly):
                interp.event("isinstance-float-on-symbolic", node, str(x), obj=x)
                return True
            return False
        if n == "int":
            return isinstance(x, int)
        if n == "bool":
            return isinstance(x, bool)
        if n == "complex":
            return isinstance(x, Poly) and not alg.is_real(x)
        if n == "str":
            return isinstance(x, str)
        if n == "tuple":
            return isinstance(x, tuple)
        if n == "list":
            return isinstance(x, list)
        if n == "dict":
            return isinstance(x, dict)
        raise Unsupported(f"isinstance(..., {n})")
    if isinstance(cls, I.ClassVal):
        return isinstance(x, I.Obj) and x.cls.is_subclass(cls)
    if isinstance(cls, I.Ext):
        if cls.name in ("jax.Array", "jnp.ndarray", "jaxtyping.Array", "jax.numpy.ndarray"):
            return isinstance(x, Tens)
        if cls.name in ("numbers.Number", "numbers.Real"):
            return isinstance(x, (int, Fr, Poly))
        raise Unsupported(f"isinstance(..., {cls.name})")
    raise Unsupported("isinstance with a dynamic class")


# ----------------------------------------------------------------------------- further jnp idioms (robustness against
# legal but unusual spellings: a verdict instead of "no transfer function")


def _cmp_fn(pyop):
    def f(it, a, k, node):
        return compare(it, pyop(), a[0], a[1], node)

    return f


for _n, _op in (("equal", ast.Eq), ("not_equal", ast.NotEq), ("greater", ast.Gt), ("greater_equal", ast.GtE), ("less", ast.Lt), ("less_equal", ast.LtE)):
    REG["jnp." + _n] = _cmp_fn(_op)


def _bin_fn(pyop):
    def f(it, a, k, node):
        return binop(it, pyop(), a[0], a[1], node)

    return f


REG["jnp.true_divide"] = _bin_fn(ast.Div)
REG["jnp.divide"] = _bin_fn(ast.Div)
REG["jnp.float_power"] = _bin_fn(ast.Pow)
REG["jnp.mod"] = _bin_fn(ast.Mod)
REG["jnp.remainder"] = _bin_fn(ast.Mod)
REG["jnp.floor_divide"] = _bin_fn(ast.FloorDiv)


@reg("jnp.reciprocal")
def _reciprocal(it, a, k, node):
    return binop(it, ast.Div(), 1, a[0], node)


@reg("jnp.hstack", "jnp.vstack", "jnp.column_stack", "jnp.append")
def _xstack(it, a, k, node):
    name = _I().ext_canon(ast.unparse(node.func)) if node is not None else ""
    if name.endswith("append"):
        ts = [_arr(a[0]), _arr(a[1])]
        axis = k.get("axis", a[2] if len(a) > 2 else None)
        if axis is None:
            ts = [T.reshape(t, (len(t.data),)) if not t.has_sym() else t for t in ts]
            axis = 0
        return T.concatenate(ts, axis)
    ts = [_arr(x) for x in a[0]]
    if name.endswith("vstack"):
        ts = [T.expand_dims(t, 0) if t.ndim < 2 else t for t in ts]
        return T.concatenate(ts, 0)
    if name.endswith("column_stack"):
        ts = [T.expand_dims(t, 1) if t.ndim < 2 else t for t in ts]
        return T.concatenate(ts, 1)
    return T.concatenate(ts, 0 if ts[0].ndim == 1 else 1)


@reg("jnp.ravel")
def _ravel(it, a, k, node):
    return _m_flatten(it, [_arr(a[0])], k, node)


@reg("jnp.copy")
def _copy(it, a, k, node):
    return _arr(a[0])


@reg("jnp.fliplr")
def _fliplr(it, a, k, node):
    return _flip(it, [a[0], 1], {}, node)


@reg("jnp.flipud")
def _flipud(it, a, k, node):
    return _flip(it, [a[0], 0], {}, node)


@reg("jnp.tensordot")
def _tensordot(it, a, k, node):
    x, y = _arr(a[0]), _arr(a[1])
    axes = k.get("axes", a[2] if len(a) > 2 else 2)
    letters = "abcdefghijklmnopqrstuvw"
    if isinstance(axes, int):
        ax, ay = list(range(x.ndim - axes, x.ndim)), list(range(axes))
    else:
        ax, ay = axes
        ax = [ax] if isinstance(ax, int) else list(ax)
        ay = [ay] if isinstance(ay, int) else list(ay)
    ax = [i % x.ndim for i in ax]
    ay = [i % y.ndim for i in ay]
    if len(ax) != len(ay):
        raise ShapeError("tensordot: axes of different lengths")
    lx = list(letters[: x.ndim])
    ly = list(letters[x.ndim : x.ndim + y.ndim])
    for i, j in zip(ax, ay):
        ly[j] = lx[i]
    out = [l for i, l in enumerate(lx) if i not in ax] + [l for j, l in enumerate(ly) if j not in ay]
    return T.einsum("".join(lx) + "," + "".join(ly) + "->" + "".join(out), x, y)


@reg("jnp.take")
def _take(it, a, k, node):
    t = _arr(a[0])
    idx = a[1] if len(a) > 1 else k["indices"]
    axis = k.get("axis", a[2] if len(a) > 2 else None)
    if axis is None:
        raise Unsupported("take on the flattened array")
    axis = _I()._static_int(axis) % t.ndim
    if isinstance(idx, Tens):
        if idx.has_sym():
            raise Unsupported("take with symbolic indices")
        idx = [T._as_int(e) for e in idx.data] if idx.ndim else T._as_int(idx.data[0])
    if isinstance(idx, (list, tuple)):
        parts = [getitem(it, t, tuple([slice(None)] * axis + [slice(i, i + 1) if i != -1 else slice(-1, None)]), node) for i in (_I()._static_int(x) for x in idx)]
        return T.concatenate(parts, axis)
    return getitem(it, t, tuple([slice(None)] * axis + [_I()._static_int(idx)]), node)


@reg("jnp.all")
def _all(it, a, k, node):
    return REG["jnp.prod"](it, [a[0].map(lambda e: as_poly(_b2p(e))) if isinstance(a[0], Tens) else a[0]] + list(a[1:]), k, node)


@reg("jnp.any")
def _any(it, a, k, node):
    t = _arr(a[0]).map(lambda e: 1 - as_poly(_b2p(e)))
    r = REG["jnp.prod"](it, [t] + list(a[1:]), k, node)
    return r.map(lambda e: 1 - e) if isinstance(r, Tens) else 1 - r


@reg("jnp.log1p")
def _log1p(it, a, k, node):
    t = _arr(a[0]).map(lambda e: e + 1)
    log_singular(it, node, "log", t)
    return t.map(lambda e: alg.fn("log", e))


@reg("jnp.exp2")
def _exp2(it, a, k, node):
    return _arr(a[0]).map(lambda e: alg.exp(e * alg.fn("log", Poly.const(2))))


@reg("jnp.hypot")
def _hypot(it, a, k, node):
    s = T.ewise(lambda x, y: x * x + y * y, _arr(a[0]), _arr(a[1]))
    log_singular(it, node, "norm (sqrt of a sum of squares)", s)
    return s.map(alg.sqrt)


@reg("jnp.cbrt")
def _cbrt(it, a, k, node):
    log_singular(it, node, "power", _arr(a[0]))
    return _arr(a[0]).map(lambda e: e ** Fr(1, 3))


for _n in ("arccos", "arcsin", "sinc", "log2", "isinf", "isreal", "angle", "heaviside", "nan_to_num"):
    REG["jnp." + _n] = _ew1(lambda e, _n=_n: alg.fn(_n, e))
REG["jnp.arctan2"] = _ew2(lambda x, y: alg.fn("arctan2", x, y))
REG["jnp.fmax"] = REG["jnp.maximum"]
REG["jnp.fmin"] = REG["jnp.minimum"]
REG["jnp.nanmax"] = REG["jnp.max"]
REG["jnp.nanmin"] = REG["jnp.min"]


@reg("lax.select", "jax.lax.select")
def _lax_select(it, a, k, node):
    return _where(it, a, k, node)


@reg("jnp.size")
def _size(it, a, k, node):
    return value_attr(it, _arr(a[0]), "size", node)


@reg("jnp.diagonal")
def _diagonal(it, a, k, node):
    t = _arr(a[0])
    if t.ndim != 2 or t.has_sym() or t.shape[0] != t.shape[1]:
        raise Unsupported("diagonal of a non-square / symbolic array")
    n = t.shape[0]
    return Tens((n,), [t.data[i * n + i] for i in range(n)])


@reg("functools.reduce")
def _reduce(it, a, k, node):
    f, seq = a[0], list(it.iterate(a[1], node))
    if len(a) > 2:
        acc = a[2]
    else:
        if not seq:
            raise _I().RepoRaise("TypeError", node, it.cur_file(), "reduce() of empty iterable with no initial value")
        acc, seq = seq[0], seq[1:]
    for x in seq:
        acc = it.call(f, [acc, x], {}, node)
    return acc


@reg("jnp.polyval")
def _polyval(it, a, k, node):
    p = a[0] if not isinstance(a[0], Tens) else a[0]
    x = _arr(a[1])
    if isinstance(p, Tens):
        if p.ndim != 1 or p.has_sym():
            raise Unsupported("polyval with a non 1-d / symbolic-length coefficient array")
        cs = list(p.data)
    else:
        cs = [num_to_poly(c) for c in p]
    n = len(cs)

    def ev(e):
        r = Poly()
        for i, c in enumerate(cs):
            r = r + as_poly(c) * e ** (n - 1 - i)
        return r

    return x.map(ev)



# ----------------------------------------------------------------------------- lazy itertools (consumed through zip / islice)


class LazyIter:
    """an unbounded Python iterator of the interpreted program (itertools.repeat / accumulate / count): only a finite
    prefix is ever materialised, by the consumer that bounds it (zip with a finite sequence, islice)"""

    def __init__(self, gen_factory, what):
        self.gen_factory, self.what = gen_factory, what

    def take(self, n):
        out = []
        g = self.gen_factory()
        for _ in range(n):
            out.append(next(g))
        return out

    def __repr__(self):
        return f"<lazy {self.what}>"


@reg("itertools.repeat")
def _it_repeat(it, a, k, node):
    x = a[0]
    times = a[1] if len(a) > 1 else k.get("times")
    if times is not None:
        return [x] * _I()._static_int(times)

    def gen():
        while True:
            yield x

    return LazyIter(gen, "repeat")


@reg("itertools.count")
def _it_count(it, a, k, node):
    start = a[0] if a else k.get("start", 0)
    step = a[1] if len(a) > 1 else k.get("step", 1)

    def gen():
        v = start
        while True:
            yield v
            v = binop(it, ast.Add(), v, step, node)

    return LazyIter(gen, "count")


@reg("itertools.accumulate")
def _it_accumulate(it, a, k, node):
    src = a[0]
    f = a[1] if len(a) > 1 else k.get("func")
    has_init = "initial" in k and k["initial"] is not None
    init = k.get("initial")

    def step(acc, x):
        if f is None:
            return binop(it, ast.Add(), acc, x, node)
        return it.call(f, [acc, x], {}, node)

    if isinstance(src, LazyIter):
        def gen():
            g = src.gen_factory()
            if has_init:
                acc = init
            else:
                acc = next(g)
            yield acc
            while True:
                acc = step(acc, next(g))
                yield acc

        return LazyIter(gen, "accumulate")
    seq = it.iterate(src, node)
    out = []
    if has_init:
        acc = init
        out.append(acc)
    elif seq:
        acc, seq = seq[0], seq[1:]
        out.append(acc)
    for x in seq:
        acc = step(acc, x)
        out.append(acc)
    return out


@reg("itertools.islice")
def _it_islice(it, a, k, node):
    src = a[0]
    I = _I()
    if len(a) == 2:
        lo, hi, st = 0, I._static_int(a[1]), 1
    else:
        lo, hi, st = (0 if a[1] is None else I._static_int(a[1])), I._static_int(a[2]), (1 if len(a) < 4 or a[3] is None else I._static_int(a[3]))
    seq = src.take(hi) if isinstance(src, LazyIter) else it.iterate(src, node)[:hi]
    return seq[lo:hi:st]


@reg("itertools.chain")
def _it_chain(it, a, k, node):
    out = []
    for x in a:
        out += it.iterate(x, node)
    return out


for _n, _op in (("mul", ast.Mult), ("add", ast.Add), ("sub", ast.Sub), ("truediv", ast.Div), ("pow", ast.Pow), ("matmul", ast.MatMult), ("floordiv", ast.FloorDiv), ("mod", ast.Mod)):
    REG["operator." + _n] = _bin_fn(_op)
REG["operator.neg"] = lambda it, a, k, node: unop(it, ast.USub(), a[0], node)


@reg("jnp.count_nonzero")
def _count_nonzero(it, a, k, node):
    # number of non-zero entries = sum of the 0/1 indicator "entry != 0" (boolean arrays are their own indicator)
    t = _arr(a[0]).map(lambda e: as_poly(_b2p(e)))
    bad = [e for e in t.data if not _is_indicator_valued(e)]
    if bad:
        t = t.map(lambda e: 1 - alg.ind("eq", e, Poly()))
    return _sum(it, [t] + list(a[1:]), k, node)


def _is_indicator_valued(e):
    """products / complements of indicator atoms (what boolean arrays are in this domain)"""
    for m, c in e.t.items():
        for a_, x in m:
            if a_[0] not in ("ind", "mask") and not (a_[0] == "fn" and a_[1] in ("isnan", "isfinite", "isinf")):
                return False
    return True


# values of the abstract domain are exact (finite) numbers: the nan-aware reductions are the plain ones (nansum = sum,
# nanmean = mean, see above) and, consistently, the nan / inf predicates are constant
REG["jnp.isnan"] = _ew1(lambda e: Poly())
REG["jnp.isinf"] = _ew1(lambda e: Poly())
REG["jnp.isfinite"] = _ew1(lambda e: Poly.const(1))
REG["jnp.nan_to_num"] = _ew1(lambda e: e)


@reg("jnp.split", "jnp.array_split")
def _split(it, a, k, node):
    t = _arr(a[0])
    sec = a[1] if len(a) > 1 else k.get("indices_or_sections")
    axis = _I()._static_int(k.get("axis", a[2] if len(a) > 2 else 0)) % t.ndim
    d = t.shape[axis]
    if is_sym(d):
        raise Unsupported("split along a symbolic axis")
    if isinstance(sec, (list, tuple, Tens)):
        cuts = [_I()._static_int(x) for x in (sec.data if isinstance(sec, Tens) else sec)]
    else:
        n = _I()._static_int(sec)
        if d % n != 0:
            raise _I().RepoRaise("ValueError", node, it.cur_file(), "array split does not result in an equal division")
        cuts = [d // n * i for i in range(1, n)]
    bounds = [0] + cuts + [d]
    out = []
    for lo, hi in zip(bounds[:-1], bounds[1:]):
        out.append(getitem(it, t, tuple([slice(None)] * axis + [slice(lo, hi)]), node))
    return out


_einsum_plain = REG["jnp.einsum"]


@reg("jnp.einsum")
def _einsum2(it, a, k, node):
    spec = a[0].replace(" ", "") if isinstance(a[0], str) else None
    ops = [_arr(x) for x in a[1:]]
    if spec and "->" in spec and "..." not in spec:
        lhs, out = spec.split("->")
        ins = lhs.split(",")
        # every operand carries the same subscripts (an elementwise product) and the contracted letters include
        # symbolic axes: product, then the ordinary (possibly symbolic) sum over those axes
        if len(set(ins)) == 1 and len(ins) == len(ops) and all(o.ndim == len(ins[0]) for o in ops) and len(set(ins[0])) == len(ins[0]):
            letters = ins[0]
            summed = [i for i, l in enumerate(letters) if l not in out]
            if summed and any(is_sym(ops[0].shape[i]) for i in summed) and [l for l in letters if l in out] == list(out):
                p = ops[0]
                for o in ops[1:]:
                    p = T.ewise(lambda u, v: u * v, p, o)
                return T.reduce(p, tuple(summed), False, _sum_fold, SO.sym_sum, SO.partial_sum)
    return _einsum_plain(it, a, k, node)
