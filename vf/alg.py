"""Exact algebra of canonical forms (DESIGN 2.4).

Elements are Laurent polynomials with Gaussian-rational coefficients over
*atoms*.  An atom is a hashable tuple whose first entry is a tag.  Two values
are equal iff their normal forms are identical.

Nothing in here knows about Python syntax or about exponax; it is the value
domain of the abstract interpreter and of the reference formulas.
"""

from __future__ import annotations

from fractions import Fraction as Fr
from functools import cmp_to_key
import math


class AlgError(Exception):
    pass


class ZeroDiv(AlgError):
    """division by an expression that is identically zero: definite in the interpreted program (inf / nan)"""



# --------------------------------------------------------------------------
# Gaussian rationals
# --------------------------------------------------------------------------


class GQ:
    __slots__ = ("re", "im")

    def __init__(self, re=0, im=0):
        self.re = re if isinstance(re, Fr) else Fr(re)
        self.im = im if isinstance(im, Fr) else Fr(im)

    def __add__(self, o):
        return GQ(self.re + o.re, self.im + o.im)

    def __sub__(self, o):
        return GQ(self.re - o.re, self.im - o.im)

    def __neg__(self):
        return GQ(-self.re, -self.im)

    def __mul__(self, o):
        if not self.im and not o.im:
            return GQ(self.re * o.re, 0)
        return GQ(self.re * o.re - self.im * o.im, self.re * o.im + self.im * o.re)

    def inv(self):
        d = self.re * self.re + self.im * self.im
        if d == 0:
            raise ZeroDiv("division by zero coefficient")
        return GQ(self.re / d, -self.im / d)

    def conj(self):
        return GQ(self.re, -self.im)

    def is_zero(self):
        return self.re == 0 and self.im == 0

    def is_real(self):
        return self.im == 0

    def __eq__(self, o):
        return isinstance(o, GQ) and self.re == o.re and self.im == o.im

    def __hash__(self):
        return hash((self.re, self.im))

    def __repr__(self):
        def f(x):
            return str(x.numerator) if x.denominator == 1 else f"{x.numerator}/{x.denominator}"

        if self.im == 0:
            return f(self.re)
        if self.re == 0:
            if self.im == 1:
                return "i"
            if self.im == -1:
                return "-i"
            return f"{f(self.im)}i"
        return f"({f(self.re)}{'+' if self.im > 0 else '-'}{f(abs(self.im))}i)"

    def ipow(self, n):
        if n < 0:
            return self.inv().ipow(-n)
        r = GQ(1)
        b = self
        while n:
            if n & 1:
                r = r * b
            b = b * b
            n >>= 1
        return r


ONE = GQ(1)
ZERO = GQ(0)
IMAG = GQ(0, 1)


def to_gq(x):
    if isinstance(x, GQ):
        return x
    if isinstance(x, bool):
        return GQ(int(x))
    if isinstance(x, (int, Fr)):
        return GQ(x)
    if isinstance(x, float):
        return GQ(Fr(repr(x)))
    if isinstance(x, complex):
        return GQ(Fr(repr(x.real)), Fr(repr(x.imag)))
    raise AlgError(f"cannot convert {x!r} to a coefficient")


# --------------------------------------------------------------------------
# Atoms
# --------------------------------------------------------------------------
# tags:
#   's'    scalar parameter              ('s', name)            positive real unless listed in SIGNED
#   'num'  integer under a rational power ('num', n)
#   'k'    wavenumber after meshgrid     ('k', axis, D, kind)   kind in full/half
#   'k1'   1-D wavenumber before meshgrid ('k1', kind)
#   'x'    grid coordinate after meshgrid ('x', axis, D) ; 'x1' before
#   'u'    state                         ('u', name, channel, sort) sort in F/P
#   'P'    opaque polynomial base        ('P', poly)            rational exponents, neg ints = inverse
#   'exp'  exp(real coefficient * mono)  ('exp', mono)          'expi' for imaginary coefficient
#   'ind'  indicator of a predicate      ('ind', op, lhs, rhs)  idempotent
#   'I','F' transforms                   see ops.py
#   'fn'   uninterpreted function        ('fn', name, args...)
#   'idx'  bound index of a symbolic axis ('idx', tag)

IDEMPOTENT_TAGS = {"ind", "mask"}

_sortkey_cache = {}


def atom_sortkey(a):
    k = _sortkey_cache.get(a)
    if k is None:
        k = (TAG_ORDER.get(a[0], 50), repr(a))
        _sortkey_cache[a] = k
    return k


TAG_ORDER = {
    "num": 0,
    "s": 1,
    "idx": 2,
    "exp": 5,
    "expi": 6,
    "k1": 10,
    "k": 11,
    "x1": 12,
    "x": 13,
    "ind": 20,
    "mask": 21,
    "P": 30,
    "R": 30,
    "abs": 31,
    "fn": 40,
    "u": 60,
    "dc": 61,
    "I": 70,
    "F": 71,
}


def mono_cmp(m1, m2):
    """graded lexicographic order (multiplicative): total degree, then the first atom (in atom
    order) whose exponents differ decides, larger exponent = larger monomial"""
    d1 = sum(e for _, e in m1)
    d2 = sum(e for _, e in m2)
    if d1 != d2:
        return -1 if d1 < d2 else 1
    i = j = 0
    n1, n2 = len(m1), len(m2)
    while i < n1 or j < n2:
        if i < n1 and j < n2:
            a1, e1 = m1[i]
            a2, e2 = m2[j]
            if a1 == a2:
                if e1 != e2:
                    return -1 if e1 < e2 else 1
                i += 1
                j += 1
                continue
            k1, k2 = atom_sortkey(a1), atom_sortkey(a2)
            if k1 < k2:
                return 1 if e1 > 0 else -1
            return -1 if e2 > 0 else 1
        if i < n1:
            return 1 if m1[i][1] > 0 else -1
        return -1 if m2[j][1] > 0 else 1
    return 0


mono_sortkey = cmp_to_key(mono_cmp)


def _mono_from_dict(d):
    return tuple(sorted(((a, e) for a, e in d.items() if e != 0), key=lambda t: atom_sortkey(t[0])))


def mono_mul(m1, m2):
    """product of monomials -> (coef GQ, monomial, needs_expand)"""
    if not m1:
        return ONE, m2
    if not m2:
        return ONE, m1
    d = dict(m1)
    for a, e in m2:
        d[a] = d.get(a, 0) + e
    return _mono_norm(d)


def _mono_norm(d):
    coef = ONE
    out = {}
    for a, e in d.items():
        if e == 0:
            continue
        tag = a[0]
        if tag in IDEMPOTENT_TAGS:
            if e < 0:
                raise AlgError(f"negative power of indicator {a}")
            e = 1
        elif tag == "num":
            if isinstance(e, int) or (isinstance(e, Fr) and e.denominator == 1):
                coef = coef * GQ(Fr(a[1]) ** int(e))
                continue
            # pull out integer part of the exponent so that sqrt(2)**3 = 2*sqrt(2)
            e = Fr(e)
            ip = math.floor(e)
            if ip:
                coef = coef * GQ(Fr(a[1]) ** ip)
                e = e - ip
        if isinstance(e, Fr) and e.denominator == 1:
            e = int(e)
        out[a] = e
    return coef, _mono_from_dict(out)


def mono_pow(m, e):
    return _mono_norm({a: x * e for a, x in m})


# --------------------------------------------------------------------------
# Polynomials
# --------------------------------------------------------------------------

NORMALIZE_INV = True


class Poly:
    __slots__ = ("t", "_h", "_r")

    def __init__(self, terms=None):
        self.t = terms or {}
        self._h = None
        self._r = None

    # ---- construction
    @staticmethod
    def const(c):
        c = to_gq(c)
        return Poly({(): c}) if not c.is_zero() else Poly()

    @staticmethod
    def atom(a, e=1):
        c, m = _mono_norm({a: e})
        return Poly({m: c})

    @staticmethod
    def sym(name):
        return Poly.atom(("s", name))

    # ---- basic
    def is_zero(self):
        return not self.t

    def is_const(self):
        return not self.t or (len(self.t) == 1 and () in self.t)

    def const_value(self):
        if not self.t:
            return ZERO
        if self.is_const():
            return self.t[()]
        raise AlgError("not a constant")

    def as_number(self):
        """python int / Fraction if constant real, else None"""
        if not self.is_const():
            return None
        c = self.const_value()
        if c.im != 0:
            return None
        return int(c.re) if c.re.denominator == 1 else c.re

    def __hash__(self):
        if self._h is None:
            self._h = hash(frozenset(self.t.items()))
        return self._h

    def __eq__(self, o):
        if not isinstance(o, Poly):
            try:
                o = Poly.const(o)
            except AlgError:
                return NotImplemented
        return self.t == o.t

    def __ne__(self, o):
        r = self.__eq__(o)
        return r if r is NotImplemented else not r

    def atoms(self):
        s = set()
        for m in self.t:
            for a, _ in m:
                s.add(a)
        return s

    def all_atoms(self):
        """atoms including those nested inside atom arguments"""
        out = set()

        def rec(x):
            if isinstance(x, Poly):
                for m in x.t:
                    for a, _ in m:
                        rec(a)
            elif isinstance(x, tuple):
                if x and isinstance(x[0], str) and x not in out:
                    out.add(x)
                for y in x[1:] if (x and isinstance(x[0], str)) else x:
                    rec(y)

        rec(self)
        return out

    # ---- arithmetic
    def __add__(self, o):
        o = as_poly(o)
        if not o.t:
            return self
        if not self.t:
            return o
        d = dict(self.t)
        for m, c in o.t.items():
            x = d.get(m)
            if x is None:
                d[m] = c
            else:
                x = x + c
                if x.is_zero():
                    del d[m]
                else:
                    d[m] = x
        return Poly(d)

    __radd__ = __add__

    def __neg__(self):
        return Poly({m: -c for m, c in self.t.items()})

    def __sub__(self, o):
        return self + (-as_poly(o))

    def __rsub__(self, o):
        return as_poly(o) + (-self)

    def scale(self, c):
        c = to_gq(c)
        if c.is_zero():
            return Poly()
        return Poly({m: x * c for m, x in self.t.items()})

    def __mul__(self, o):
        o = as_poly(o)
        if not self.t or not o.t:
            return Poly()
        d = {}
        expand = False
        for m1, c1 in self.t.items():
            for m2, c2 in o.t.items():
                k, m = mono_mul(m1, m2)
                c = c1 * c2 * k
                x = d.get(m)
                if x is None:
                    d[m] = c
                else:
                    x = x + c
                    if x.is_zero():
                        del d[m]
                    else:
                        d[m] = x
        r = Poly(d)
        return _post(r)

    __rmul__ = __mul__

    def __pow__(self, e):
        if isinstance(e, Poly):
            n = e.as_number()
            if n is None:
                base, ex = _pow_canon(self, e)
                return Poly.atom(("pow", base, ex))
            e = n
        if isinstance(e, float):
            e = Fr(repr(e))
        if isinstance(e, Fr) and e.denominator == 1:
            e = int(e)
        if isinstance(e, int):
            if e == 0:
                return Poly.const(1)
            if e < 0:
                return self.inverse() ** (-e)
            if len(self.t) == 1:
                ((m, c),) = self.t.items()
                k, mm = mono_pow(m, e)
                return _post(Poly({mm: c.ipow(e) * k}))
            r = Poly.const(1)
            b = self
            while e:
                if e & 1:
                    r = r * b
                b = b * b
                e >>= 1
            return r
        # rational exponent
        return rpow(self, Fr(e))

    def is_real_coeffs(self):
        """real coefficients and real-valued atoms only"""
        return is_real(self)

    def inverse(self):
        if not self.t:
            raise ZeroDiv("division by zero")
        if len(self.t) == 1:
            ((m, c),) = self.t.items()
            k, mm = mono_pow(m, -1)
            return _post(Poly({mm: c.inv() * k}))
        inds = sorted({a for m in self.t for a, e in m if a[0] == "ind"}, key=repr)
        if inds and len(inds) <= 3:
            # Shannon expansion on an idempotent indicator: 1/(chi*a + (1-chi)*b) = chi/a + (1-chi)/b
            chi = inds[0]
            p1, p0 = subs(self, {chi: Poly.const(1)}), subs(self, {chi: Poly()})
            if p1.t and p0.t:
                x = Poly.atom(chi)
                return x * p1.inverse() + (1 - x) * p0.inverse()
        b, n = perfect_root(self)
        if n > 1:
            return b.inverse() ** n
        c0, g, q = primitive(self)
        k, gm = mono_pow(g, -1)
        return Poly({gm: c0.inv() * k}) * Poly.atom(("P", q), -1)

    def __truediv__(self, o):
        o = as_poly(o)
        if len(o.t) == 1:
            return self * o.inverse()
        # exact division attempt first keeps forms small: x*(a+b)/(a+b)
        return self * o.inverse()

    def __rtruediv__(self, o):
        return as_poly(o) * self.inverse()

    # ---- substitution
    def subs(self, mapping):
        """mapping: atom -> Poly/number, applied at top level and inside nested atoms"""
        return subs(self, mapping)

    def map_atoms(self, fn):
        return map_atoms(self, fn)

    # ---- printing
    def __repr__(self):
        if self._r is None:
            self._r = fmt(self)
        return self._r


def as_poly(x):
    if isinstance(x, Poly):
        return x
    return Poly.const(x)


def primitive(p):
    """p = c0 * g * q with q having monomial-gcd 1 and leading coefficient 1"""
    monos = [dict(m) for m in p.t]
    common = {}
    for a in monos[0]:
        if a[0] in IDEMPOTENT_TAGS:
            continue
        es = [d.get(a, 0) for d in monos]
        if all(e > 0 for e in es):
            common[a] = min(es)
        elif all(e < 0 for e in es):
            common[a] = max(es)
    g = _mono_from_dict(common)
    if g:
        k, ginv = mono_pow(g, -1)
        q = p * Poly({ginv: k})
    else:
        q = p
    lead = max(q.t, key=mono_sortkey)
    c0 = q.t[lead]
    q = q.scale(c0.inv())
    return c0, g, q


def _has_P_inv(p):
    for m in p.t:
        for a, e in m:
            if a[0] == "P" or a[0] == "R":
                return True
    return False


def _fix_roots(p):
    """R(q, den)^e with e outside [0, den): move whole powers of q out"""
    changed = True
    while changed:
        changed = False
        for m, c in list(p.t.items()):
            for a, e in m:
                if a[0] == "R" and (e >= a[2] or e < 0):
                    whole = e // a[2]
                    r = e - whole * a[2]
                    rest = tuple((b, f) for b, f in m if b != a)
                    d = dict(p.t)
                    del d[m]
                    term = Poly({rest: c}) * (a[1] ** whole)
                    if r:
                        term = term * Poly.atom(a, r)
                    p = Poly(d) + term
                    changed = True
                    break
            if changed:
                break
    return p


def _post(p):
    """post-normalisation: expand positive integer powers of P atoms, reduce numerators modulo P bases"""
    if not _has_P_inv(p):
        return p
    p = _fix_roots(p)
    # 1. expand P(q)^n, n positive integer
    changed = True
    while changed:
        changed = False
        for m, c in list(p.t.items()):
            for a, e in m:
                if a[0] == "P" and isinstance(e, int) and e > 0:
                    rest = tuple((b, f) for b, f in m if b != a)
                    d = dict(p.t)
                    del d[m]
                    p = Poly(d) + Poly({rest: c}) * (a[1] ** e)
                    changed = True
                    break
                if a[0] == "P" and isinstance(e, Fr) and e > 1:
                    ip = math.floor(e)
                    rest = tuple((b, f) for b, f in m if b != a)
                    d = dict(p.t)
                    del d[m]
                    p = Poly(d) + Poly({rest: c}) * (a[1] ** ip) * Poly.atom(a, e - ip)
                    changed = True
                    break
            if changed:
                break
    if not NORMALIZE_INV:
        return p
    return _reduce_inv(p)


def _reduce_inv(p):
    patoms = set()
    for m in p.t:
        for a, e in m:
            if a[0] == "P" and isinstance(e, int) and e < 0:
                patoms.add(a)
    for a in sorted(patoms, key=atom_sortkey):
        q = a[1]
        guard = 0
        while True:
            guard += 1
            if guard > 200:
                raise AlgError("inverse normalisation did not terminate")
            # group by exponent of a
            groups = {}
            for m, c in p.t.items():
                e = 0
                for b, f in m:
                    if b == a:
                        e = f
                rest = tuple((b, f) for b, f in m if b != a)
                groups.setdefault(e, {})[rest] = c
            neg = sorted(e for e in groups if isinstance(e, int) and e < 0)
            progressed = False
            for e in neg:
                R = Poly(groups[e])
                Q, Rem = polydiv(R, q)
                if Q.is_zero():
                    continue
                groups[e] = Rem.t
                tgt = e + 1
                cur = Poly(groups.get(tgt, {}))
                groups[tgt] = (cur + Q).t
                progressed = True
                break
            if not progressed:
                break
            d = {}
            for e, g in groups.items():
                for rest, c in g.items():
                    if e == 0:
                        mm = rest
                        k = ONE
                    else:
                        k, mm = mono_mul(rest, ((a, e),))
                    x = d.get(mm)
                    x = c * k if x is None else x + c * k
                    if x.is_zero():
                        d.pop(mm, None)
                    else:
                        d[mm] = x
            p = Poly(d)
    return p


def polydiv(R, q):
    """multivariate division of R by the single polynomial q; returns (Q, Rem) with R = Q*q + Rem.
    A term is reducible when it is divisible by LM(q) with non-negative quotient exponents on
    the atoms of LM(q)."""
    lm = max(q.t, key=mono_sortkey)
    lc = q.t[lm]
    lmd = dict(lm)
    if not lmd or any(e <= 0 for e in lmd.values()):
        return Poly(), R
    Q = Poly()
    Rem = Poly()
    work = R
    guard = 0
    while work.t:
        guard += 1
        if guard > 5000:
            raise AlgError("polynomial division did not terminate")
        m = max(work.t, key=mono_sortkey)
        c = work.t[m]
        md = dict(m)
        ok = all((a in md) and (md[a] >= e) and (isinstance(md[a], int) or Fr(md[a]).denominator == 1 or True) for a, e in lmd.items())
        if ok:
            k, qm = mono_mul(m, mono_pow(lm, -1)[1])
            term = Poly({qm: c * lc.inv() * k})
            Q = Q + term
            work = work - _raw_mul(term, q)
        else:
            Rem = Rem + Poly({m: c})
            d = dict(work.t)
            del d[m]
            work = Poly(d)
    return Q, Rem


def _raw_mul(a, b):
    d = {}
    for m1, c1 in a.t.items():
        for m2, c2 in b.t.items():
            k, m = mono_mul(m1, m2)
            c = c1 * c2 * k
            x = d.get(m)
            x = c if x is None else x + c
            if x.is_zero():
                d.pop(m, None)
            else:
                d[m] = x
    return Poly(d)


# --------------------------------------------------------------------------
# functions
# --------------------------------------------------------------------------

# names of 's' atoms assumed strictly positive (used only by sqrt / abs / definiteness); every other
# scalar parameter (velocities, coefficients, scales ...) may have either sign
POSITIVE = {"L", "dt", "N", "M", "r", "pi", "Nold", "Nnew", "n", "kinj"}


def _atom_nonneg(a):
    t = a[0]
    if t == "s":
        return a[1] in POSITIVE
    if t == "num":
        return True
    if t in ("k", "k1"):
        return a[-1] == "half"
    if t in ("abs", "ind", "mask"):
        return True
    if t == "exp":
        # exp(c*m) is a positive real only for a real exponent; for a complex one sqrt(exp(z)) != exp(z/2)
        # in general (principal branch), so it must not be treated as a positive number
        return atom_is_real(a)
    if t in ("P", "R"):
        return bool(a[1].t) and all(_mono_nonneg(m) and c.im == 0 and c.re > 0 for m, c in a[1].t.items())
    return False


def _atom_pos(a):
    """strictly positive (hence non-zero) atom"""
    t = a[0]
    if t == "s":
        return a[1] in POSITIVE
    return t in ("num", "exp", "expc")


def _mono_nonneg(m):
    for a, e in m:
        if _atom_nonneg(a):
            continue
        if isinstance(e, int) and e % 2 == 0 and atom_is_real(a):
            continue
        return False
    return True


# parity of the grid size N in the world being analysed (set by harness.new_interp; None = unknown)
N_PARITY = [None]


def _wavenumber_range(op, lhs, rhs):
    """|k| <= N//2 on every axis of the stored spectrum (k >= 0 on the halved one): `k <= c`, `|k| <= c`, `k < c` with a
    bound at or beyond the largest stored wavenumber is true for every mode"""
    ats = lhs.atoms()
    if len(lhs.t) != 1 or len(ats) != 1:
        return None
    a = next(iter(ats))
    if lhs != Poly.atom(a):
        return None
    inner = a
    if a[0] == "abs":
        ia = list(a[1].atoms())
        if len(ia) != 1 or a[1] != Poly.atom(ia[0]):
            return None
        inner = ia[0]
    if inner[0] not in ("k", "k1"):
        return None
    if any(x[0] == "s" and x[1] in ("Nold", "Nnew") for x in rhs.all_atoms()):
        return None
    slack = rhs - (Poly.sym("N") - N_PARITY[0]) / 2  # bound minus largest stored wavenumber
    num = slack.as_number()
    sg = _linear_sign(slack)
    if num is not None:
        ok = num >= 0 if op == "le" else num > 0
    elif sg is not None:
        ok = sg[1] if op == "le" else sg[0]
    else:
        ok = False
    return Poly.const(1) if ok else None


# standing assumptions on sizes: grids have at least 3 points, contour integrals at least one node
ASSUME_MIN = {("s", "N"): 3, ("s", "Nold"): 3, ("s", "Nnew"): 3, ("s", "M"): 1, ("s", "n"): 0}


def _linear_sign(d):
    """d = a*X + b with X one size symbol bounded below by ASSUME_MIN: (d>0 always, d>=0 always, d<0 always, d<=0 always)"""
    ats = list(d.atoms())
    if len(ats) != 1 or ats[0] not in ASSUME_MIN:
        return None
    x = ats[0]
    a = d.t.get(((x, 1),))
    b = d.t.get((), GQ(0))
    if a is None or len(d.t) > 2 or a.im != 0 or b.im != 0 or any(m not in ((), ((x, 1),)) for m in d.t):
        return None
    v = a.re * ASSUME_MIN[x] + b.re  # value at the smallest admissible size
    if a.re > 0:
        return (v > 0, v >= 0, False, False)
    if a.re < 0:
        return (False, False, v < 0, v <= 0)
    return None


def poly_pos(p):
    """non-negative terms only, at least one of them strictly positive: p > 0"""
    return bool(p.t) and poly_nonneg(p) and any(all(_atom_pos(a) and (e > 0 or True) for a, e in m) for m in p.t)


def poly_nonneg(p):
    """every term is a positive multiple of a product of non-negative factors (sufficient, not necessary)"""
    return all(c.im == 0 and c.re > 0 and _mono_nonneg(m) for m, c in p.t.items())


def rpow(p, e):
    """p ** e for rational non-integer e"""
    if not p.t:
        if e > 0:
            return Poly()
        raise AlgError("0 ** negative")
    if len(p.t) == 1:
        ((m, c),) = p.t.items()
        out = Poly.const(1)
        # coefficient
        if c.im != 0 or c.re < 0:
            # sign / phase cannot be distributed over the factors: keep the signed monomial under the root
            e = Fr(e)
            ip = math.floor(e)
            fr = e - ip
            mag = abs(c.re) if c.im == 0 else Fr(1)
            sgn = Poly({m: (GQ(-1) if c.im == 0 else c)})
            res = rpow(Poly.const(mag), e) if mag != 1 else Poly.const(1)
            if ip:
                res = res * (sgn**ip)
            if fr:
                res = res * Poly.atom(("R", sgn, fr.denominator), fr.numerator)
            return res
        num, den = c.re.numerator, c.re.denominator
        out = out * _int_rpow(num, e) * _int_rpow(den, -e)
        d = {}
        for a, x in m:
            if _atom_nonneg(a):
                d[a] = x * e
            elif isinstance(x, int) and x % 2 == 0 and (Fr(x) * e).denominator == 1:
                # (a^2)^(1/2) = |a|
                ne = int(Fr(x) * e)
                if ne % 2 == 0:
                    d[a] = ne
                else:
                    d[("abs", Poly.atom(a))] = ne
            else:
                ee = Fr(x) * e if False else None
                fr_ = Fr(e)
                ip_ = math.floor(fr_)
                rem = fr_ - ip_
                base = Poly.atom(a, x)
                if ip_:
                    d[a] = d.get(a, 0) + x * ip_
                if rem:
                    d[("R", base, rem.denominator)] = rem.numerator
        k, mm = _mono_norm(d)
        return out * Poly({mm: k})
    b, n = perfect_root(p)
    if n > 1:
        if n % 2 == 0 and (e * n).denominator == 1 and int(e * n) % 2 == 1:
            return absval(b) ** (e * n)
        return b ** (e * n)
    c0, g, q = primitive(p)
    if c0.im != 0 or c0.re < 0:
        # keep the sign / phase inside the root: only a positive content is pulled out
        if c0.im == 0:
            q = -q
            c0 = GQ(-c0.re)
        else:
            q = q.scale(c0)
            c0 = ONE
    e = Fr(e)
    ip = math.floor(e)
    fr = e - ip
    out = rpow(Poly({g: c0}), e) if (g or c0 != ONE) else Poly.const(1)
    if ip:
        out = out * (q**ip)
    if fr:
        out = out * Poly.atom(("R", q, fr.denominator), fr.numerator)
    return out


def _pow_canon(base, e):
    """(b, e') with b**e' == base**e for a symbolic exponent e: perfect powers and roots of NON-NEGATIVE bases are moved
    into the exponent, (b^n)^e = b^(n e), (q^(1/d))^e = q^(e/d), so that |k|^(-p/2) and (|k|^2)^(-p/4) coincide"""
    from math import gcd

    for _ in range(8):
        if len(base.t) == 1:
            ((m, c),) = base.t.items()
            if c.im != 0 or c.re <= 0 or not m:
                break
            # a single root atom: R(q, den)^x
            if c == ONE and len(m) == 1 and m[0][0][0] == "R":
                a, x = m[0]
                if _atom_nonneg(a):
                    base, e = a[1], e * Fr(x, a[2])
                    continue
            if not all(_atom_nonneg(a) for a, _ in m):
                break
            rs = [a for a, _ in m if a[0] == "R"]
            if rs:
                # roots inside a non-negative monomial: (c * q^(x/d) * ...)^e = (c^d * q^x * ...)^(e/d)
                den = 1
                for a in rs:
                    den = den * a[2] // gcd(den, a[2])
                base, e = base**den, e * Fr(1, den)
                continue
            g = 0
            for _, x in m:
                g = gcd(g, abs(x))
            while g > 1:
                r = _rational_root(c.re, g)
                if r is not None:
                    break
                g = max(d for d in range(1, g) if g % d == 0)
            if g <= 1:
                break
            base = Poly({tuple((a, x // g) for a, x in m): GQ(r)})
            e = e * g
            continue
        b, n = perfect_root(base)
        if n > 1 and poly_nonneg(b):
            base, e = b, e * n
            continue
        break
    return base, e


def _rational_root(q, n):
    """the positive rational r with r**n == q, or None"""
    q = Fr(q)

    def iroot(v):
        if v < 0:
            return None
        r = round(v ** (1.0 / n)) if v < 2**52 else None
        if r is None:
            lo, hi = 0, 1
            while hi**n < v:
                hi *= 2
            while lo < hi:
                mid = (lo + hi) // 2
                if mid**n < v:
                    lo = mid + 1
                else:
                    hi = mid
            r = lo
        for c in (r - 1, r, r + 1):
            if c >= 0 and c**n == v:
                return c
        return None

    a, b = iroot(q.numerator), iroot(q.denominator)
    if a is None or b is None or b == 0:
        return None
    return Fr(a, b)


def perfect_root(q):
    """(b, n) with b**n == q and n maximal in {1,2,3,4,6}; multi-term q only"""
    if len(q.t) < 2:
        return q, 1
    for n in (6, 4, 3, 2):
        b = _nth_root(q, n)
        if b is not None:
            bb, nn = perfect_root(b)
            return bb, n * nn
    return q, 1


def _nth_root(q, n):
    if len(q.t) < n + 1:
        return None
    lm = max(q.t, key=mono_sortkey)
    lc = q.t[lm]
    if lc.im != 0 or lc.re <= 0:
        if n % 2 == 1 and lc.im == 0:
            sign = -1
        else:
            return None
    else:
        sign = 1
    # leading term root
    d = {}
    for a, e in lm:
        x = Fr(e) / n
        if x.denominator != 1:
            return None
        d[a] = int(x)
    mag = abs(lc.re)
    num = round(mag.numerator ** (1.0 / n))
    den = round(mag.denominator ** (1.0 / n))
    if num**n != mag.numerator or den**n != mag.denominator:
        return None
    b0 = Poly({_mono_from_dict(d): GQ(Fr(sign * num, den))})
    b = b0
    denom = (b0 ** (n - 1)).scale(n).inverse()
    for _ in range(len(q.t) + 2):
        r = q - b**n
        if not r.t:
            return b
        m = max(r.t, key=mono_sortkey)
        t = Poly({m: r.t[m]}) * denom
        if len(t.t) != 1:
            return None
        ((tm, _),) = t.t.items()
        if any(not isinstance(e, int) for _, e in tm):
            return None
        if t.t.keys() <= b.t.keys():
            return None
        b = b + t
        if len(b.t) > len(q.t):
            return None
    return None


def _int_rpow(n, e):
    if n == 1:
        return Poly.const(1)
    # perfect powers
    den = Fr(e).denominator
    r = round(n ** (1.0 / den))
    for cand in (r - 1, r, r + 1):
        if cand > 0 and cand**den == n:
            return Poly.const(Fr(cand) ** Fr(e).numerator)
    return Poly.atom(("num", n), e)


def sqrt(p):
    return as_poly(p) ** Fr(1, 2)


def exp(p):
    p = as_poly(p)
    out = Poly.const(1)
    for m, c in p.t.items():
        if not m:
            if c.is_zero():
                continue
            out = out * Poly.atom(("expc", c))
            continue
        if c.re != 0:
            out = out * Poly.atom(("exp", m), c.re)
        if c.im != 0:
            out = out * Poly.atom(("expi", m), c.im)
    return out


def absval(p):
    p = as_poly(p)
    if not p.t:
        return p
    if len(p.t) == 1:
        ((m, c),) = p.t.items()
        if c.im == 0 or c.re == 0:
            mag = abs(c.re) if c.im == 0 else abs(c.im)
            d = {}
            for a, e in m:
                if _atom_nonneg(a):
                    d[a] = e
                elif a[0] == "expi":
                    continue  # unimodular
                else:
                    d[("abs", Poly.atom(a))] = e
            k, mm = _mono_norm(d)
            return Poly({mm: k * GQ(mag)})
    return Poly.atom(("abs", p))


def real(p):
    p = as_poly(p)
    if is_real(p):
        return p
    return Poly.atom(("Re", p))


def imag(p):
    p = as_poly(p)
    if is_real(p):
        return Poly()
    return Poly.atom(("Im", p))


COMPLEX_TAGS = {"expi", "u", "F", "dc", "expc"}
COMPLEX_ATOMS = set()  # extra atoms declared complex (e.g. a symbolic linear operator lambda)


def atom_is_real(a):
    if a in COMPLEX_ATOMS:
        return False
    t = a[0]
    if t == "u":
        return a[-1] == "P"
    if t in COMPLEX_TAGS:
        return False
    if t in ("P", "abs", "R"):
        return t == "abs" or is_real(a[1])
    if t == "exp":
        return all(atom_is_real(b) for b, _ in a[1])
    if t == "fn":
        return a[1] in REAL_FNS and all(is_real(x) for x in a[2:] if isinstance(x, Poly))
    if t == "I":
        return len(a) >= 3 and isinstance(a[1], Poly) and _k_parity(a[1]) == 0
    if t in ("Sum", "PSum", "RSum", "Strided", "dc"):
        # sums / samples of a real quantity are real
        return isinstance(a[1], Poly) and is_real(a[1]) if t != "dc" else atom_is_real(a[1])
    if t in ("Re", "Im", "Mean", "Std", "MaxAbs", "Min", "Max", "Idc", "x", "x1", "k", "k1", "s", "num", "ind", "mask", "idx", "draw"):
        return True
    return False


REAL_FNS = {"sin", "cos", "minimum", "maximum"}


def _k_parity(q, half_even=False):
    """parity (0 even / 1 odd) of a polynomial under k -> -k, None if mixed or unknown.  Inside a comparison
    (half_even) a wavenumber of the halved rfft axis is non-negative by layout: the predicate is a predicate on
    |k| and hence symmetric on the Hermitian-completed spectrum."""
    par = None
    for m, c in q.t.items():
        d = 0
        for a, e in m:
            t = a[0]
            if t in ("k", "k1"):
                if not (half_even and a[-1] == "half"):
                    d += e
            elif t in ("s", "num"):
                pass
            elif t in ("P", "R", "abs"):
                ip = _k_parity(a[1], half_even)
                if ip is None:
                    return None
                if t == "abs":
                    ip = 0
                d += ip * e
            elif t == "ind":
                for x in a[1:]:
                    if isinstance(x, Poly) and _k_parity(x, True) != 0:
                        return None
            else:
                return None
        d %= 2
        if par is None:
            par = d
        elif par != d:
            return None
    return 0 if par is None else par


def atom_phase(a):
    """0: real-valued, 1: purely imaginary, None: unknown.  I[m, X] - the inverse transform of m(k) X(k) with X the
    spectrum of a real field - is real for an even multiplier and purely imaginary for an odd one."""
    if a[0] == "I" and len(a) >= 3 and isinstance(a[1], Poly):
        return _k_parity(a[1])
    return 0 if atom_is_real(a) else None


def is_real(p):
    for m, c in p.t.items():
        ph = 0
        for a, e in m:
            x = atom_phase(a)
            if x is None:
                return False
            ph += x * e
        if (c.im != 0) if ph % 2 == 0 else (c.re != 0):
            return False
    return True


def conj(p):
    p = as_poly(p)
    if is_real(p):
        return p
    return Poly.atom(("conj", p))


def fn(name, *args):
    return Poly.atom(("fn", name) + tuple(args))


def ind(op, lhs, rhs):
    """indicator of lhs op rhs, op in le, lt, eq ; constant-folded when decidable"""
    lhs, rhs = as_poly(lhs), as_poly(rhs)
    d = lhs - rhs
    n = d.as_number()
    if n is not None:
        v = {"le": n <= 0, "lt": n < 0, "eq": n == 0}[op]
        return Poly.const(1 if v else 0)
    if len(d.t) == 1:
        # a single monomial of strictly positive atoms has the sign of its coefficient
        ((m0, c0_),) = d.t.items()
        if c0_.im == 0 and all(_atom_pos(a) for a, _ in m0):
            v = {"le": c0_.re <= 0, "lt": c0_.re < 0, "eq": False}[op]
            return Poly.const(1 if v else 0)
    if op in ("le", "lt") and N_PARITY[0] is not None:
        r_ = _wavenumber_range(op, lhs, rhs)
        if r_ is not None:
            return r_
    sg = _linear_sign(d)
    if sg is not None:
        lo_pos, lo_nonneg, hi_neg, hi_nonpos = sg
        if lo_pos:  # d > 0 always
            return Poly()
        if hi_neg:  # d < 0 always
            return Poly() if op == "eq" else Poly.const(1)
        if lo_nonneg and op == "lt":
            return Poly()
        if hi_nonpos and op == "le":
            return Poly.const(1)
    if poly_pos(d):  # lhs - rhs > 0 always
        return Poly()
    if poly_pos(-d):  # lhs - rhs < 0 always
        return Poly() if op == "eq" else Poly.const(1)
    if op in ("lt", "le"):
        # comparisons of a sign-definite difference reduce to (in)equality with zero
        if poly_nonneg(d):  # lhs - rhs >= 0 always
            return Poly() if op == "lt" else ind("eq", d, Poly())
        if poly_nonneg(-d):  # lhs - rhs <= 0 always
            return Poly.const(1) if op == "le" else Poly.const(1) - ind("eq", d, Poly())
    if op == "eq":
        # canonical orientation: d == 0 with d primitive and without factors known to be non-zero
        if len(d.t) > 1:
            c0, g, q = primitive(d)
        else:
            ((g, c0),) = d.t.items()
            q = Poly.const(1)
        g2 = tuple((a, 1 if e > 0 else -1) for a, e in g if not _atom_pos(a))
        g2 = tuple((a, 1) for a, e in g2)
        return Poly.atom(("ind", "eq", Poly({g2: ONE}) * q, Poly()))
    return Poly.atom(("ind", op, lhs, rhs))


# --------------------------------------------------------------------------
# structural maps
# --------------------------------------------------------------------------


def map_atoms(p, f, _cache=None):
    """rebuild p applying f(atom)->Poly|None (None = keep, after recursing into nested polys).
    Atoms with algebraic meaning (P, R, exp, abs, ind) are rebuilt through their constructors so that
    the result is again in normal form."""
    cache = {} if _cache is None else _cache
    out = Poly()
    for m, c in p.t.items():
        term = Poly.const(c)
        for a, e in m:
            base = cache.get(a)
            if base is None:
                base = _map_one(a, f, cache)
                cache[a] = base
            if base is _KEEP:
                term = term * Poly.atom(a, e)
            elif isinstance(base, tuple):
                # (kind, inner) : power has to be taken on the inner polynomial
                kind, inner, den = base
                if kind == "P":
                    term = term * inner**e
                elif kind == "EXP":
                    # the exponent of an exp atom scales its argument: exp(m)^e := exp(e*m)
                    term = term * exp(inner.scale(GQ(Fr(e))))
                else:
                    term = term * inner ** Fr(e, den)
            else:
                term = term * (base**e if e != 1 else base)
        out = out + term
    return out


_KEEP = object()


def _map_one(a, f, cache):
    r = f(a)
    if r is not None:
        return as_poly(r)
    t = a[0]
    if t == "P":
        inner = map_atoms(a[1], f, cache)
        return _KEEP if inner == a[1] else ("P", inner, 1)
    if t == "R":
        inner = map_atoms(a[1], f, cache)
        return _KEEP if inner == a[1] else ("R", inner, a[2])
    if t in ("exp", "expi"):
        inner = map_atoms(Poly({a[1]: ONE}), f, cache)
        if inner == Poly({a[1]: ONE}):
            return _KEEP
        return ("EXP", inner if t == "exp" else inner.scale(IMAG), 1)
    if t == "abs":
        inner = map_atoms(a[1], f, cache)
        return _KEEP if inner == a[1] else absval(inner)
    if t == "ind" and a[1] in ("eq", "le", "lt"):
        l, r2 = map_atoms(a[2], f, cache), map_atoms(a[3], f, cache)
        return _KEEP if (l == a[2] and r2 == a[3]) else ind(a[1], l, r2)
    a2 = _map_nested(a, f, cache)
    if a2 is a:
        return _KEEP
    if t in REBUILD:
        return as_poly(REBUILD[t](a2))
    return Poly.atom(a2)


# tag -> function(atom with substituted arguments) -> Poly ; registered by symops for the linear atoms
REBUILD = {}


def _map_nested(a, f, cache=None):
    new = []
    changed = False
    for x in a:
        if isinstance(x, Poly):
            y = map_atoms(x, f, cache)
            if y != x:
                changed = True
            new.append(y)
        elif isinstance(x, tuple) and x and isinstance(x[0], tuple):
            # monomial embedded in an atom
            y = _map_mono(x, f)
            new.append(y)
            changed = changed or y != x
        else:
            new.append(x)
    return tuple(new) if changed else a


def _map_mono(m, f):
    p = map_atoms(Poly({m: ONE}), f)
    if len(p.t) == 1:
        ((mm, c),) = p.t.items()
        if c == ONE:
            return mm
    raise AlgError("substitution inside an exp atom did not stay a monomial; re-evaluate instead")


def subs(p, mapping):
    def f(a):
        if a in mapping:
            return as_poly(mapping[a])
        if a[0] in ("exp", "expi"):
            # exp(c*m): substitute inside m, may become a sum -> rebuild through exp()
            inner = map_atoms(Poly({a[1]: ONE}), f)
            if inner == Poly({a[1]: ONE}):
                return None
            return exp(inner if a[0] == "exp" else inner.scale(IMAG))
        return None

    return map_atoms(p, f)


# --------------------------------------------------------------------------
# printing
# --------------------------------------------------------------------------


def fmt_atom(a):
    t = a[0]
    if t == "s":
        return a[1]
    if t == "num":
        return str(a[1])
    if t == "k":
        return f"k{a[1]}" + ("h" if a[3] == "half" else "")
    if t == "k1":
        return "k1d" + ("h" if a[1] == "half" else "f")
    if t == "x":
        return f"x{a[1]}"
    if t == "u":
        return f"{a[1]}{a[2]}" + ("^" if a[3] == "F" else "")
    if t == "P":
        return f"[{fmt(a[1])}]"
    if t == "R":
        return f"root{a[2]}[{fmt(a[1])}]"
    if t in ("exp", "expi"):
        return f"{t}({fmt(Poly({a[1]: ONE}))})"
    if t == "ind":
        op = {"le": "<=", "lt": "<", "eq": "=="}[a[1]]
        return f"1{{{fmt(a[2])}{op}{fmt(a[3])}}}"
    if t == "idx":
        return f"j_{a[1]}"
    args = ",".join(fmt(x) if isinstance(x, Poly) else _fmt_other(x) for x in a[1:])
    return f"{t}({args})"


def _fmt_other(x):
    if isinstance(x, tuple) and x and isinstance(x[0], tuple):
        try:
            return fmt(Poly({x: ONE}))
        except Exception:
            return repr(x)
    return str(x)


def fmt_mono(m):
    parts = []
    for a, e in m:
        s = fmt_atom(a)
        if e != 1:
            s += f"^{e}" if (isinstance(e, int) and e > 0) else f"^({e})"
        parts.append(s)
    return "*".join(parts)


def fmt(p):
    if not p.t:
        return "0"
    terms = []
    for m in sorted(p.t, key=mono_sortkey):
        c = p.t[m]
        ms = fmt_mono(m)
        if not ms:
            terms.append(repr(c))
        elif c == ONE:
            terms.append(ms)
        elif c == -ONE:
            terms.append("-" + ms)
        else:
            terms.append(f"{c!r}*{ms}")
    s = " + ".join(terms)
    return s.replace("+ -", "- ")


S = Poly.sym
I = Poly.const(IMAG)
PI = Poly.sym("pi")


def conj_poly(p):
    """complex conjugate for polynomials whose non-real atoms are expi(.) (unimodular), declared complex
    scalars and spectrum atoms (the latter become explicit ('conj', atom) atoms)"""
    out = Poly()
    for m, c in p.t.items():
        term = Poly.const(c.conj())
        for a, e in m:
            if a[0] == "expi":
                term = term * Poly.atom(a, -e)
            elif a[0] == "conj":
                term = term * (a[1] ** e)
            elif atom_is_real(a):
                term = term * Poly.atom(a, e)
            else:
                term = term * Poly.atom(("conj", Poly.atom(a)), e)
        out = out + term
    return out


def split_real_imag(p):
    """p = re + i*im assuming every atom is real-valued; returns (re, im)"""
    re, im = Poly(), Poly()
    for m, c in p.t.items():
        for a, _ in m:
            if not atom_is_real(a):
                raise AlgError(f"atom {fmt_atom(a)} is not known to be real")
        if c.re != 0:
            re = re + Poly({m: GQ(c.re)})
        if c.im != 0:
            im = im + Poly({m: GQ(c.im)})
    return re, im
