"""Value-numbering interpreter over /repo's syntax trees (DESIGN 2.1 + 2.4).

Nothing from the repository is imported or executed: modules are parsed with `ast`, names are
resolved through a small program model (imports, classes with MRO, closures) and every expression is
evaluated in the exact algebra of `alg.py` / `tens.py`.  Library calls (jax.numpy & co) have hand-written
transfer functions in `jnpops.py`.  Anything outside the supported subset raises `AnalysisError`
(fail closed).
"""

from __future__ import annotations

import ast
import os
from fractions import Fraction as Fr

from . import alg
from .alg import Poly, as_poly, AlgError, GQ
from .tens import Tens, ShapeError, Unsupported, as_tens
from . import tens as T


# statement coverage of the interpreted repository code (tools/coverage.py; VF_COVERAGE=<file> appends to it)
COVER = set() if os.environ.get("VF_COVERAGE") else None


def _dump_cover():
    if COVER:
        with open(os.environ["VF_COVERAGE"], "a", encoding="utf-8") as f:
            for fn, ln in sorted(COVER, key=lambda t: (str(t[0]), t[1])):
                f.write(f"{fn}:{ln}\n")


if COVER is not None:
    import atexit

    atexit.register(_dump_cover)


class AnalysisError(Exception):
    def __init__(self, msg, node=None, file=None):
        self.msg = msg
        self.node = node
        self.file = file
        super().__init__(msg)

    def where(self):
        if self.file and self.node is not None and hasattr(self.node, "lineno"):
            return f"{self.file}:{self.node.lineno}"
        return self.file or "?"

    def __str__(self):
        return f"{self.where()}: {self.msg}"


class RepoRaise(Exception):
    """the interpreted code executed a `raise` statement"""

    def __init__(self, exc_name, node, file, message=""):
        self.exc_name = exc_name
        self.node = node
        self.file = file
        self.message = message
        super().__init__(f"{exc_name} at {file}:{getattr(node, 'lineno', '?')}")


class UndecidableBranch(Exception):
    def __init__(self, cond, node, file, fn):
        self.cond = cond
        self.node = node
        self.file = file
        self.fn = fn
        super().__init__(f"branch on symbolic value {cond} at {file}:{getattr(node, 'lineno', '?')} in {fn}")


class RegionDependent(Exception):
    """a constructor builds structurally different objects depending on the value range of a float parameter"""

    def __init__(self, cls, cond, node, file, fn, diff):
        self.cls, self.cond, self.node, self.file, self.fn, self.diff = cls, cond, node, file, fn, diff
        super().__init__(f"{cls.name}: the branch on {cond} at {file}:{getattr(node, 'lineno', '?')} changes {', '.join(diff)}")


class _Return(Exception):
    def __init__(self, v):
        self.v = v


class _Break(Exception):
    pass


class _Continue(Exception):
    pass


# ----------------------------------------------------------------------------- values


class Ext:
    """a name living in an external library (jax, equinox, typing ...)"""

    __slots__ = ("name",)

    def __init__(self, name):
        self.name = name

    def __repr__(self):
        return f"<ext {self.name}>"

    def __eq__(self, o):
        return isinstance(o, Ext) and o.name == self.name

    def __hash__(self):
        return hash(("Ext", self.name))


EXT_ALIASES = [
    ("jax.numpy", "jnp"),
    ("jax.random", "jr"),
    ("jax.tree_util", "jtu"),
    ("jax.lax", "lax"),
    ("equinox", "eqx"),
]


def ext_canon(name):
    for long, short in EXT_ALIASES:
        if name == long or name.startswith(long + "."):
            return short + name[len(long) :]
    return name


class ModuleVal:
    def __init__(self, name, path, tree, repo):
        self.name = name
        self.path = path
        self.tree = tree
        self.repo = repo
        self.env = None  # filled lazily

    def __repr__(self):
        return f"<module {self.name}>"


class FuncVal:
    def __init__(self, node, module, env, cls=None, qual=None):
        self.node = node
        self.module = module
        self.env = env
        self.cls = cls
        self.qual = qual or node.name

    @property
    def name(self):
        return getattr(self.node, "name", "<lambda>")

    def __repr__(self):
        return f"<function {self.module.name}.{self.qual}>"


class BoundMethod:
    def __init__(self, fn, self_obj):
        self.fn = fn
        self.self_obj = self_obj

    def __repr__(self):
        return f"<bound {self.fn!r}>"


class ClassVal:
    def __init__(self, node, module, bases):
        self.node = node
        self.module = module
        self.bases = bases  # ClassVal or Ext
        self.name = node.name
        self.methods = {}
        self.fields = []  # (name, default_node or None) in definition order
        self.class_attrs = {}

    def mro(self):
        out = [self]
        for b in self.bases:
            if isinstance(b, ClassVal):
                for c in b.mro():
                    if c not in out:
                        out.append(c)
        return out

    def find(self, name, after=None):
        m = self.mro()
        if after is not None:
            m = m[m.index(after) + 1 :]
        for c in m:
            if name in c.methods:
                return c.methods[name]
        return None

    def all_fields(self):
        seen = {}
        for c in reversed(self.mro()):
            for n, d in c.fields:
                if n in seen:
                    if d is not None:
                        seen[n] = (d, c)
                else:
                    seen[n] = (d, c)
        return [(n, d, c) for n, (d, c) in seen.items()]

    def is_subclass(self, other):
        return other in self.mro()

    @property
    def qual(self):
        return f"{self.module.name}.{self.name}"

    def __repr__(self):
        return f"<class {self.qual}>"


class Obj:
    def __init__(self, cls):
        self.cls = cls
        self.f = {}

    def __repr__(self):
        return f"<{self.cls.name} object>"


class UFun:
    """uninterpreted function.  mode 'tens': returns a Tens shaped like its first argument whose entries
    are ('fn', name, channel, args...) atoms; mode 'term': returns an opaque Term."""

    def __init__(self, name, mode="tens", out_channels=None):
        self.name = name
        self.mode = mode
        self.out_channels = out_channels

    def __repr__(self):
        return f"<ufun {self.name}>"


class Term:
    """opaque structural value (used where only the *shape of the computation* matters, C14)"""

    __slots__ = ("op", "args", "_h")

    def __init__(self, op, *args):
        self.op = op
        self.args = tuple(freeze(a) for a in args)
        self._h = None

    def __eq__(self, o):
        return isinstance(o, Term) and self.op == o.op and self.args == o.args

    def __hash__(self):
        if self._h is None:
            self._h = hash((self.op, self.args))
        return self._h

    def __repr__(self):
        return f"{self.op}({', '.join(map(repr, self.args))})"


def freeze(x):
    if isinstance(x, list):
        return ("list",) + tuple(freeze(y) for y in x)
    if isinstance(x, tuple):
        return tuple(freeze(y) for y in x)
    if isinstance(x, dict):
        return ("dict",) + tuple(sorted((k, freeze(v)) for k, v in x.items()))
    if isinstance(x, slice):
        return ("slice", freeze(x.start), freeze(x.stop), freeze(x.step))
    return x


def contains_term(x):
    if isinstance(x, Term):
        return True
    if isinstance(x, (list, tuple)):
        return any(contains_term(y) for y in x)
    if isinstance(x, dict):
        return any(contains_term(y) for y in x.values())
    return False


class KeyVal:
    """PRNG key with its derivation lineage"""

    def __init__(self, lineage):
        self.lineage = tuple(lineage)

    def __repr__(self):
        return f"key{self.lineage}"

    def __eq__(self, o):
        return isinstance(o, KeyVal) and o.lineage == self.lineage

    def __hash__(self):
        return hash(("key", self.lineage))


class Builtin:
    def __init__(self, name):
        self.name = name

    def __repr__(self):
        return f"<builtin {self.name}>"


class PyClosure:
    """a python callable provided by the checker (stubs, vmap wrappers ...)"""

    def __init__(self, fn, name="<py>"):
        self.fn = fn
        self.name = name

    def __repr__(self):
        return f"<py {self.name}>"


class Env:
    __slots__ = ("d", "parent")

    def __init__(self, parent=None):
        self.d = {}
        self.parent = parent

    def get(self, k):
        e = self
        while e is not None:
            if k in e.d:
                return e.d[k]
            e = e.parent
        raise KeyError(k)

    def set(self, k, v):
        self.d[k] = v


class Frame:
    def __init__(self, fn, env, self_obj=None):
        self.fn = fn
        self.env = env
        self.self_obj = self_obj


# ----------------------------------------------------------------------------- repository model


class Repo:
    def __init__(self, root=None, package="exponax"):
        self.root = root or os.environ.get("VF_REPO", "/repo")
        self.package = package
        self.modules = {}
        self.files = {}
        pkg_dir = os.path.join(self.root, package)
        if not os.path.isdir(pkg_dir):
            raise AnalysisError(f"package directory {pkg_dir} not found")
        for dp, dn, fn in os.walk(pkg_dir):
            dn[:] = sorted(d for d in dn if d != "__pycache__")
            for f in sorted(fn):
                if not f.endswith(".py"):
                    continue
                path = os.path.join(dp, f)
                rel = os.path.relpath(path, self.root)
                mod = rel[:-3].replace(os.sep, ".")
                if mod.endswith(".__init__"):
                    mod = mod[: -len(".__init__")]
                try:
                    src = open(path, encoding="utf-8").read()
                    tree = ast.parse(src, filename=rel)
                except SyntaxError as e:
                    raise AnalysisError(f"cannot parse {rel}: {e}")
                self.files[rel] = src
                self.modules[mod] = ModuleVal(mod, rel, tree, self)

    def is_pkg(self, mod):
        return self.modules[mod].path.endswith("__init__.py")

    def digest(self):
        import hashlib

        h = hashlib.sha256()
        for k in sorted(self.files):
            h.update(k.encode())
            h.update(self.files[k].encode())
        return h.hexdigest()


# ----------------------------------------------------------------------------- interpreter


class Ctx:
    def __init__(self):
        self.parity = {}  # atom -> 0/1
        self.facts = []  # (Poly, 'pos'|'neg'|'zero'|'nonzero')
        self.events = []
        self.stubs = {}  # qualified name -> python callable(interp, args, kwargs)
        self.decide = None  # callable(cond Poly, node, file, fn) -> bool|None
        self.key_uses = {}
        self.float_symbols_are_traced = False
        self.max_depth = 40
        self.warnings = []
        self.call_log = None  # optional set of reached function quals
        self.event_objs = []
        self.branch_log = set()  # (file, line, src) of every evaluated branch test


class Interp:
    def __init__(self, repo, ctx=None):
        self.repo = repo
        self.ctx = ctx or Ctx()
        self.frames = []
        self.depth = 0
        from . import jnpops

        self.ops = jnpops

    # ------------------------------------------------------------------ modules
    def module(self, name):
        if name not in self.repo.modules:
            raise AnalysisError(f"module {name} not found in repository")
        m = self.repo.modules[name]
        if m.env is None:
            m.env = Env()
            m.env.set("__name__", name)
            self._exec_module(m)
        return m

    def _exec_module(self, m):
        fr = Frame(None, m.env)
        fr.module = m
        self.frames.append(fr)
        try:
            for st in m.tree.body:
                self._exec_module_stmt(m, st)
        finally:
            self.frames.pop()

    def _exec_module_stmt(self, m, st):
        if isinstance(st, ast.Expr) and isinstance(st.value, ast.Constant):
            return
        if isinstance(st, (ast.Import, ast.ImportFrom)):
            self._do_import(m, st, m.env)
        elif isinstance(st, ast.FunctionDef):
            m.env.set(st.name, FuncVal(st, m, m.env, qual=st.name))
        elif isinstance(st, ast.ClassDef):
            m.env.set(st.name, self._make_class(m, st))
        elif isinstance(st, (ast.Assign, ast.AnnAssign, ast.AugAssign)):
            try:
                self.exec_stmt(st, m.env)
            except (AnalysisError, Unsupported, AlgError, KeyError):
                # module-level constants we cannot evaluate are left undefined; a later use fails closed
                pass
        elif isinstance(st, (ast.If, ast.Try)):
            # e.g. optional imports (viz); not needed by any anchored module
            pass
        else:
            raise AnalysisError(f"unsupported module-level statement {type(st).__name__}", st, m.path)

    def _do_import(self, m, st, env):
        if isinstance(st, ast.Import):
            for a in st.names:
                top = a.name.split(".")[0]
                if top == self.repo.package:
                    env.set(a.asname or top, self.module(a.name if a.asname else top))
                else:
                    env.set(a.asname or top, Ext(ext_canon(a.name if a.asname else top)))
            return
        # from X import ...
        if st.level:
            base = m.name.split(".")
            if not self.repo.is_pkg(m.name):
                base = base[:-1]
            base = base[: len(base) - (st.level - 1)]
            target = ".".join(base + (st.module.split(".") if st.module else []))
        else:
            target = st.module
        in_repo = target.split(".")[0] == self.repo.package
        for a in st.names:
            if a.name == "*":
                raise AnalysisError("star import", st, m.path)
            if in_repo:
                sub = f"{target}.{a.name}"
                if sub in self.repo.modules:
                    val = self.module(sub)
                else:
                    tm = self.module(target)
                    try:
                        val = tm.env.get(a.name)
                    except KeyError:
                        raise AnalysisError(f"cannot import name {a.name} from {target}", st, m.path)
            else:
                val = Ext(ext_canon(f"{target}.{a.name}"))
            env.set(a.asname or a.name, val)

    def _make_class(self, m, node):
        bases = []
        for b in node.bases:
            try:
                bases.append(self.eval(b, m.env))
            except Exception:
                bases.append(Ext("?"))
        cls = ClassVal(node, m, bases)
        for st in node.body:
            if isinstance(st, ast.FunctionDef):
                fv = FuncVal(st, m, m.env, cls=cls, qual=f"{node.name}.{st.name}")
                decos = {ast.unparse(d).split(".")[-1].split("(")[0] for d in st.decorator_list}
                fv.kind = "property" if ("property" in decos or "cached_property" in decos) else ("static" if "staticmethod" in decos else ("class" if "classmethod" in decos else "method"))
                cls.methods[st.name] = fv
            elif isinstance(st, ast.AnnAssign) and isinstance(st.target, ast.Name):
                cls.fields.append((st.target.id, st.value))
            elif isinstance(st, ast.Assign):
                for t in st.targets:
                    if isinstance(t, ast.Name):
                        cls.class_attrs[t.id] = st.value
            elif isinstance(st, ast.Expr) and isinstance(st.value, ast.Constant):
                pass
            elif isinstance(st, ast.Pass):
                pass
            else:
                raise AnalysisError(f"unsupported class-body statement {type(st).__name__}", st, m.path)
        return cls

    # ------------------------------------------------------------------ helpers
    def cur_file(self):
        for fr in reversed(self.frames):
            if fr.fn is not None:
                return fr.fn.module.path
            if getattr(fr, "module", None) is not None:
                return fr.module.path
        return None

    def cur_fn(self):
        for fr in reversed(self.frames):
            if fr.fn is not None:
                return f"{fr.fn.module.name}.{fr.fn.qual}"
        return "<module>"

    def err(self, msg, node=None):
        return AnalysisError(msg, node, self.cur_file())

    def event(self, kind, node, detail="", obj=None):
        if obj is not None:
            self.ctx.event_objs.append(obj)
        self.ctx.events.append(
            {
                "kind": kind,
                "file": self.cur_file(),
                "line": getattr(node, "lineno", None),
                "fn": self.cur_fn(),
                "detail": detail,
                "src": ast.unparse(node) if node is not None else "",
                "atoms": sorted({a[0] + ":" + str(a[1]) for a in obj.all_atoms()}) if obj is not None and hasattr(obj, "all_atoms") else [],
            }
        )

    # ------------------------------------------------------------------ calling
    def call(self, f, args=(), kwargs=None, node=None):
        kwargs = kwargs or {}
        self.depth += 1
        if self.depth > self.ctx.max_depth:
            self.depth -= 1
            raise self.err("call depth exceeded", node)
        try:
            return self._call(f, list(args), dict(kwargs), node)
        except ShapeError as e:
            if not getattr(e, "_loc", None):
                e._loc = (self.cur_file(), getattr(node, "lineno", None), self.cur_fn())
            raise
        finally:
            self.depth -= 1

    def _call(self, f, args, kwargs, node):
        if isinstance(f, FuncVal):
            q = f"{f.module.name}.{f.qual}"
            if q in self.ctx.stubs:
                return self.ctx.stubs[q](self, args, kwargs)
            return self._call_func(f, args, kwargs, node)
        if isinstance(f, BoundMethod):
            return self._call(f.fn, [f.self_obj] + args, kwargs, node)
        if isinstance(f, ClassVal):
            return self.instantiate(f, args, kwargs, node)
        if isinstance(f, Obj):
            m = f.cls.find("__call__")
            if m is None:
                raise self.err(f"{f.cls.name} object is not callable", node)
            return self._call(m, [f] + args, kwargs, node)
        if isinstance(f, Ext):
            return self.ops.call_ext(self, f.name, args, kwargs, node)
        if isinstance(f, Builtin):
            return self.ops.call_builtin(self, f.name, args, kwargs, node)
        if isinstance(f, PyClosure):
            return f.fn(self, args, kwargs)
        if isinstance(f, UFun):
            return self.ops.call_ufun(self, f, args, kwargs, node)
        if isinstance(f, (Poly, Tens, int, Fr, str, tuple, list, dict)) or f is None:
            raise RepoRaise("TypeError", node, self.cur_file(), f"'{type(f).__name__}' object is not callable")
        raise self.err(f"cannot call {f!r}", node)

    def instantiate(self, cls, args, kwargs, node=None):
        q = cls.qual
        if q in self.ctx.stubs:
            return self.ctx.stubs[q](self, args, kwargs)
        obj = Obj(cls)
        init = cls.find("__init__")
        if init is not None:
            qi = f"{init.module.name}.{init.qual}"
            if qi in self.ctx.stubs:
                self.ctx.stubs[qi](self, [obj] + list(args), kwargs)
            else:
                self._call_func(init, [obj] + list(args), kwargs, node)
        else:
            # dataclass-style __init__ synthesised by equinox.Module
            fields = cls.all_fields()
            names = [n for n, _, _ in fields]
            if len(args) > len(names):
                raise self.err(f"too many positional arguments for {cls.name}", node)
            given = dict(zip(names, args))
            for k, v in kwargs.items():
                if k not in names:
                    raise self.err(f"unexpected keyword {k} for {cls.name}", node)
                if k in given:
                    raise self.err(f"duplicate argument {k} for {cls.name}", node)
                given[k] = v
            for n, d, c in fields:
                if n in given:
                    obj.f[n] = given[n]
                elif d is not None:
                    obj.f[n] = self.eval(d, c.module.env)
                else:
                    raise RepoRaise("TypeError", node, self.cur_file(), f"missing field {n} for {cls.name}")
        if self.ctx.call_log is not None:
            self.ctx.call_log.add(cls.qual)
        return obj

    def _call_func(self, f, args, kwargs, node):
        if self.ctx.call_log is not None:
            self.ctx.call_log.add(f"{f.module.name}.{f.qual}")
        fn = f.node
        env = Env(f.env)
        a = fn.args
        if getattr(f, "kind", "method") == "static" and f.cls is not None and args and isinstance(args[0], Obj) and len(args) > len(a.posonlyargs + a.args) and a.vararg is None:
            args = list(args)[1:]
        params = [p.arg for p in a.posonlyargs + a.args]
        defaults = a.defaults
        ndef = len(defaults)
        npos = len(params)
        args = list(args)
        if len(args) > npos and a.vararg is None:
            raise RepoRaise("TypeError", node, self.cur_file(), f"{f.qual}() takes {npos} positional arguments but {len(args)} were given")
        for i, p in enumerate(params):
            if i < len(args):
                if p in kwargs:
                    raise RepoRaise("TypeError", node, self.cur_file(), f"{f.qual}() got multiple values for argument {p}")
                env.set(p, args[i])
            elif p in kwargs:
                env.set(p, kwargs.pop(p))
            else:
                di = i - (npos - ndef)
                if di >= 0:
                    env.set(p, self._eval_default(defaults[di], f))
                else:
                    raise RepoRaise("TypeError", node, self.cur_file(), f"{f.qual}() missing required argument {p}")
        if a.vararg is not None:
            env.set(a.vararg.arg, tuple(args[npos:]))
        for p, d in zip(a.kwonlyargs, a.kw_defaults):
            if p.arg in kwargs:
                env.set(p.arg, kwargs.pop(p.arg))
            elif d is not None:
                env.set(p.arg, self._eval_default(d, f))
            else:
                raise RepoRaise("TypeError", node, self.cur_file(), f"{f.qual}() missing keyword-only argument {p.arg}")
        if a.kwarg is not None:
            env.set(a.kwarg.arg, dict(kwargs))
        elif kwargs:
            raise RepoRaise("TypeError", node, self.cur_file(), f"{f.qual}() got an unexpected keyword argument {sorted(kwargs)[0]}")
        self_obj = args[0] if (f.cls is not None and args) else None
        fr = Frame(f, env, self_obj)
        self.frames.append(fr)
        try:
            if isinstance(fn, ast.Lambda):
                return self.eval(fn.body, env)
            try:
                self.exec_block(fn.body, env)
            except _Return as r:
                return r.v
            return None
        finally:
            self.frames.pop()

    def _eval_default(self, node, f):
        fr = Frame(f, f.env)
        self.frames.append(fr)
        try:
            return self.eval(node, f.env)
        finally:
            self.frames.pop()

    # ------------------------------------------------------------------ statements
    def exec_block(self, body, env):
        for st in body:
            self.exec_stmt(st, env)

    def exec_stmt(self, st, env):
        if COVER is not None:
            COVER.add((self.cur_file(), st.lineno))
        m = getattr(self, "s_" + type(st).__name__, None)
        if m is None:
            raise self.err(f"unsupported statement {type(st).__name__}", st)
        try:
            return m(st, env)
        except alg.ZeroDiv as e:
            raise RepoRaise("ZeroDivision", st, self.cur_file(), f"{e} in `{ast.unparse(st)[:120]}` (inf/nan in array code, ZeroDivisionError in Python arithmetic)")
        except (Unsupported, AlgError) as e:
            raise self.err(f"{type(e).__name__}: {e} in `{ast.unparse(st)[:120]}`", st)

    def s_Expr(self, st, env):
        if isinstance(st.value, ast.Constant):
            return
        self.eval(st.value, env)

    def s_Pass(self, st, env):
        pass

    def s_Return(self, st, env):
        raise _Return(self.eval(st.value, env) if st.value is not None else None)

    def s_Break(self, st, env):
        raise _Break()

    def s_Continue(self, st, env):
        raise _Continue()

    def s_FunctionDef(self, st, env):
        outer = self.frames[-1].fn if self.frames else None
        qual = (outer.qual + ".<locals>." if outer else "") + st.name
        mod = outer.module if outer else self.frames[-1].module
        env.set(st.name, FuncVal(st, mod, env, cls=None, qual=qual))

    def s_Import(self, st, env):
        self._do_import(self.frames[-1].fn.module, st, env)

    s_ImportFrom = s_Import

    def s_Assign(self, st, env):
        v = self.eval(st.value, env)
        for t in st.targets:
            self.assign(t, v, env)

    def s_AnnAssign(self, st, env):
        if st.value is not None:
            self.assign(st.target, self.eval(st.value, env), env)

    def s_AugAssign(self, st, env):
        cur = self.eval(_load(st.target), env)
        v = self.eval(st.value, env)
        self.assign(st.target, self.ops.binop(self, st.op, cur, v, st), env)

    def s_Delete(self, st, env):
        pass

    def s_Assert(self, st, env):
        c = self.truth(self.eval(st.test, env), st.test)
        if not c:
            raise RepoRaise("AssertionError", st, self.cur_file())

    def s_Raise(self, st, env):
        name = "Exception"
        msg = ""
        if st.exc is not None:
            e = st.exc
            if isinstance(e, ast.Call):
                e = e.func
            name = ast.unparse(e)
        raise RepoRaise(name, st, self.cur_file(), msg)

    def s_If(self, st, env):
        self.ctx.branch_log.add((self.cur_file(), st.lineno, ast.unparse(st.test)))
        c = self.truth(self.eval(st.test, env), st.test)
        self.exec_block(st.body if c else st.orelse, env)

    def s_For(self, st, env):
        it = self.iterate(self.eval(st.iter, env), st.iter)
        broke = False
        for x in it:
            self.assign(st.target, x, env)
            try:
                self.exec_block(st.body, env)
            except _Break:
                broke = True
                break
            except _Continue:
                continue
        if not broke and st.orelse:
            self.exec_block(st.orelse, env)

    def s_Try(self, st, env):
        try:
            self.exec_block(st.body, env)
        except RepoRaise as e:
            for h in st.handlers:
                names = []
                if h.type is not None:
                    names = [ast.unparse(x).split(".")[-1] for x in (h.type.elts if isinstance(h.type, ast.Tuple) else [h.type])]
                if h.type is None or e.exc_name.split(".")[-1] in names or "Exception" in names or "BaseException" in names:
                    if h.name:
                        env.set(h.name, Ext("exception." + e.exc_name))
                    self.exec_block(h.body, env)
                    break
            else:
                raise
        else:
            self.exec_block(st.orelse, env)
        finally:
            if st.finalbody:
                self.exec_block(st.finalbody, env)

    def s_With(self, st, env):
        for item in st.items:
            v = self.eval(item.context_expr, env)
            if item.optional_vars is not None:
                self.assign(item.optional_vars, v, env)
        self.exec_block(st.body, env)

    def s_While(self, st, env):
        guard = 0
        while self.truth(self.eval(st.test, env), st.test):
            guard += 1
            if guard > 10000:
                raise self.err("while loop does not terminate on static values", st)
            try:
                self.exec_block(st.body, env)
            except _Break:
                return
            except _Continue:
                continue
        self.exec_block(st.orelse, env)

    def s_Global(self, st, env):
        self.event("global-stmt", st)

    s_Nonlocal = s_Global

    def assign(self, t, v, env):
        if isinstance(t, ast.Name):
            env.set(t.id, v)
        elif isinstance(t, (ast.Tuple, ast.List)):
            vals = list(self.iterate(v, t))
            star = [i for i, e in enumerate(t.elts) if isinstance(e, ast.Starred)]
            if star:
                i = star[0]
                n_after = len(t.elts) - i - 1
                if len(vals) < len(t.elts) - 1:
                    raise self.err("not enough values to unpack", t)
                for e, x in zip(t.elts[:i], vals[:i]):
                    self.assign(e, x, env)
                self.assign(t.elts[i].value, list(vals[i : len(vals) - n_after]), env)
                for e, x in zip(t.elts[i + 1 :], vals[len(vals) - n_after :]):
                    self.assign(e, x, env)
            else:
                if len(vals) != len(t.elts):
                    raise RepoRaise("ValueError", t, self.cur_file(), "unpack length mismatch")
                for e, x in zip(t.elts, vals):
                    self.assign(e, x, env)
        elif isinstance(t, ast.Attribute):
            o = self.eval(t.value, env)
            if isinstance(o, Obj):
                fr = self.frames[-1]
                if not (fr.fn is not None and fr.fn.name == "__init__" and fr.self_obj is o):
                    self.event("attr-assign-outside-init", t, t.attr)
                o.f[t.attr] = v
            else:
                raise self.err(f"attribute assignment on {o!r}", t)
        elif isinstance(t, ast.Subscript):
            o = self.eval(t.value, env)
            i = self.eval_index(t.slice, env)
            if isinstance(o, list):
                o[_static_int(i)] = v
            elif isinstance(o, dict):
                o[i] = v
            else:
                raise self.err(f"item assignment on {type(o).__name__}", t)
        else:
            raise self.err(f"unsupported assignment target {type(t).__name__}", t)

    # ------------------------------------------------------------------ truth
    def truth(self, v, node):
        if isinstance(v, bool):
            return v
        if v is None:
            return False
        if isinstance(v, (int, Fr, str, tuple, list, dict, set)):
            return bool(v)
        if isinstance(v, Tens):
            if v.has_sym() or len(v.data) != 1:
                if len(v.data) != 1:
                    raise RepoRaise("ValueError", node, self.cur_file(), "truth value of an array with more than one element")
            v = v.data[0]
            self.event("truth-of-array", node, str(v), obj=v)
        if isinstance(v, Poly):
            n = v.as_number()
            if n is not None:
                return bool(n)
            r = self.decide_cond(v, node)
            return r
        if isinstance(v, (Obj, FuncVal, ClassVal, Ext, ModuleVal, KeyVal, UFun, PyClosure, BoundMethod)):
            return True
        raise self.err(f"truth value of {v!r}", node)

    def decide_cond(self, cond, node):
        self.event("branch-on-symbolic", node, str(cond), obj=cond)
        if self.ctx.decide is not None:
            r = self.ctx.decide(cond, node, self.cur_file(), self.cur_fn())
            if r is not None:
                return r
        raise UndecidableBranch(cond, node, self.cur_file(), self.cur_fn())

    # ------------------------------------------------------------------ iteration
    def iterate(self, v, node):
        if isinstance(v, (list, tuple, range, dict, set)):
            return list(v)
        if isinstance(v, Tens):
            if v.ndim == 0:
                raise RepoRaise("TypeError", node, self.cur_file(), "iteration over a 0-d array")
            if T.is_sym(v.shape[0]):
                raise self.err("python iteration over a symbolic axis", node)
            return [T.getitem(v, i) for i in range(v.shape[0])]
        if isinstance(v, str):
            return list(v)
        if hasattr(v, "__iter__") and not isinstance(v, (Poly, Obj)):
            return list(v)
        raise self.err(f"cannot iterate over {v!r}", node)

    # ------------------------------------------------------------------ expressions
    def eval(self, n, env):
        m = getattr(self, "e_" + type(n).__name__, None)
        if m is None:
            raise self.err(f"unsupported expression {type(n).__name__}", n)
        try:
            return m(n, env)
        except alg.ZeroDiv as e:
            raise RepoRaise("ZeroDivision", n, self.cur_file(), f"{e} in `{ast.unparse(n)[:120]}` (inf/nan in array code, ZeroDivisionError in Python arithmetic)")
        except (Unsupported, AlgError) as e:
            if type(e).__name__ == "NoneOperand":
                raise RepoRaise("TypeError", n, self.cur_file(), f"None used as a number in `{ast.unparse(n)[:120]}`")
            raise self.err(f"{type(e).__name__}: {e} in `{ast.unparse(n)[:120]}`", n)
        except ShapeError as e:
            if not getattr(e, "_loc", None):
                e._loc = (self.cur_file(), getattr(n, "lineno", None), self.cur_fn())
                e._src = ast.unparse(n)[:160]
            raise

    def e_Constant(self, n, env):
        v = n.value
        if isinstance(v, bool) or v is None or isinstance(v, (str, int, bytes)) or v is Ellipsis:
            return v
        if isinstance(v, float):
            return _fr(v)
        if isinstance(v, complex):
            return Poly.const(GQ(_fr(v.real), _fr(v.imag)))
        raise self.err(f"constant {v!r}", n)

    def e_Name(self, n, env):
        try:
            return env.get(n.id)
        except KeyError:
            pass
        if n.id in self.ops.BUILTINS:
            return Builtin(n.id)
        import builtins as _b

        if hasattr(_b, n.id):
            raise self.err(f"builtin {n.id} has no transfer function", n)
        # not a local, global, imported or builtin name: Python raises NameError when this expression is evaluated
        raise RepoRaise("NameError", n, self.cur_file(), f"name '{n.id}' is not defined")

    def e_Tuple(self, n, env):
        return tuple(self._elts(n.elts, env))

    def e_List(self, n, env):
        return list(self._elts(n.elts, env))

    def e_Set(self, n, env):
        return set(self._elts(n.elts, env))

    def _elts(self, elts, env):
        out = []
        for e in elts:
            if isinstance(e, ast.Starred):
                v = self.eval(e.value, env)
                if isinstance(v, Term):
                    out.append(Term("star", v))  # a structural value of unknown length (e.g. the shape of a term)
                    continue
                out.extend(self.iterate(v, e))
            else:
                out.append(self.eval(e, env))
        return out

    def e_Dict(self, n, env):
        d = {}
        for k, v in zip(n.keys, n.values):
            if k is None:
                d.update(self.eval(v, env))
            else:
                d[self.eval(k, env)] = self.eval(v, env)
        return d

    def e_JoinedStr(self, n, env):
        return "<fstring>"

    def e_FormattedValue(self, n, env):
        return "<fmt>"

    def e_Lambda(self, n, env):
        outer = self.frames[-1].fn if self.frames and self.frames[-1].fn else None
        mod = outer.module if outer else self.frames[-1].module
        return FuncVal(n, mod, env, qual=(outer.qual + ".<lambda>" if outer else "<lambda>"))

    def e_IfExp(self, n, env):
        self.ctx.branch_log.add((self.cur_file(), n.lineno, ast.unparse(n.test)))
        c = self.truth(self.eval(n.test, env), n.test)
        return self.eval(n.body if c else n.orelse, env)

    def e_BoolOp(self, n, env):
        is_and = isinstance(n.op, ast.And)
        v = None
        for e in n.values:
            v = self.eval(e, env)
            t = self.truth(v, e)
            if is_and and not t:
                return v
            if not is_and and t:
                return v
        return v

    def e_UnaryOp(self, n, env):
        v = self.eval(n.operand, env)
        if isinstance(n.op, ast.Not):
            return not self.truth(v, n.operand)
        return self.ops.unop(self, n.op, v, n)

    def e_BinOp(self, n, env):
        a = self.eval(n.left, env)
        b = self.eval(n.right, env)
        return self.ops.binop(self, n.op, a, b, n)

    def e_Compare(self, n, env):
        left = self.eval(n.left, env)
        result = True
        for op, rn in zip(n.ops, n.comparators):
            right = self.eval(rn, env)
            r = self.ops.compare(self, op, left, right, n)
            if len(n.ops) == 1:
                return r
            if not self.truth(r, n):
                return False
            left = right
        return result

    def e_Attribute(self, n, env):
        o = self.eval(n.value, env)
        return self.getattr(o, n.attr, n)

    def getattr(self, o, attr, n=None):
        if isinstance(o, Obj):
            if attr in o.f:
                return o.f[attr]
            m = o.cls.find(attr)
            if m is not None:
                kind = getattr(m, "kind", "method")
                if kind == "property":
                    return self.call(m, [o], {}, n)
                if kind == "static":
                    return m
                if kind == "class":
                    return BoundMethod(m, o.cls)
                return BoundMethod(m, o)
            for c in o.cls.mro():
                if attr in c.class_attrs:
                    return self.eval(c.class_attrs[attr], c.module.env)
                for fn_, d in c.fields:
                    if fn_ == attr and d is not None:
                        return self.eval(d, c.module.env)
            raise RepoRaise("AttributeError", n, self.cur_file(), f"{o.cls.name} has no attribute {attr}")
        if isinstance(o, ModuleVal):
            self.module(o.name)
            try:
                return o.env.get(attr)
            except KeyError:
                sub = f"{o.name}.{attr}"
                if sub in self.repo.modules:
                    return self.module(sub)
                raise self.err(f"module {o.name} has no attribute {attr}", n)
        if isinstance(o, Ext):
            return self.ops.ext_attr(self, o, attr, n)
        if isinstance(o, ClassVal):
            m = o.find(attr)
            if m is not None:
                if getattr(m, "kind", "method") == "class":
                    return BoundMethod(m, o)
                return m
            raise self.err(f"class {o.name} has no attribute {attr}", n)
        if isinstance(o, _Super):
            m = o.obj.cls.find(attr, after=o.cls)
            if m is None:
                # eqx.Module / object base: only __init__ without arguments is meaningful
                if attr == "__init__":
                    return PyClosure(lambda it, a, k: None, "object.__init__")
                raise self.err(f"super() has no attribute {attr}", n)
            return BoundMethod(m, o.obj)
        return self.ops.value_attr(self, o, attr, n)

    def e_Subscript(self, n, env):
        o = self.eval(n.value, env)
        if isinstance(o, Ext):
            return o  # typing / jaxtyping subscripts
        i = self.eval_index(n.slice, env)
        return self.ops.getitem(self, o, i, n)

    def eval_index(self, s, env):
        if isinstance(s, ast.Slice):
            return slice(
                self.eval(s.lower, env) if s.lower is not None else None,
                self.eval(s.upper, env) if s.upper is not None else None,
                self.eval(s.step, env) if s.step is not None else None,
            )
        if isinstance(s, ast.Tuple):
            out = []
            for e in s.elts:
                if isinstance(e, ast.Starred):
                    out.extend(self.iterate(self.eval(e.value, env), e))
                else:
                    out.append(self.eval_index(e, env))
            return tuple(out)
        return self.eval(s, env)

    def e_Slice(self, n, env):
        return self.eval_index(n, env)

    def e_Starred(self, n, env):
        raise self.err("starred expression outside call/collection", n)

    def e_Call(self, n, env):
        # super()
        if isinstance(n.func, ast.Name) and n.func.id == "super" and not n.args:
            fr = self.frames[-1]
            # nested closures: climb to the method frame
            k = len(self.frames) - 1
            while k >= 0 and (self.frames[k].fn is None or self.frames[k].fn.cls is None):
                k -= 1
            if k < 0:
                raise self.err("super() outside a method", n)
            fr = self.frames[k]
            return _Super(fr.fn.cls, fr.self_obj)
        f = self.eval(n.func, env)
        args = []
        for a in n.args:
            if isinstance(a, ast.Starred):
                args.extend(self.iterate(self.eval(a.value, env), a))
            else:
                args.append(self.eval(a, env))
        kwargs = {}
        for k in n.keywords:
            if k.arg is None:
                d = self.eval(k.value, env)
                if not isinstance(d, dict):
                    raise self.err("** of a non-dict", n)
                kwargs.update(d)
            else:
                kwargs[k.arg] = self.eval(k.value, env)
        return self.call(f, args, kwargs, n)

    def _comp(self, gens, env, emit):
        def rec(i, e):
            if i == len(gens):
                emit(e)
                return
            g = gens[i]
            for x in self.iterate(self.eval(g.iter, e), g.iter):
                e2 = Env(e)
                self.assign(g.target, x, e2)
                if all(self.truth(self.eval(c, e2), c) for c in g.ifs):
                    rec(i + 1, e2)

        rec(0, env)

    def e_ListComp(self, n, env):
        out = []
        self._comp(n.generators, env, lambda e: out.append(self.eval(n.elt, e)))
        return out

    e_GeneratorExp = e_ListComp

    def e_SetComp(self, n, env):
        return set(self.e_ListComp(n, env))

    def e_DictComp(self, n, env):
        out = {}
        self._comp(n.generators, env, lambda e: out.__setitem__(self.eval(n.key, e), self.eval(n.value, e)))
        return out


class _Super:
    def __init__(self, cls, obj):
        self.cls = cls
        self.obj = obj


def _load(t):
    import copy

    t2 = copy.copy(t)
    t2.ctx = ast.Load()
    return t2


def _fr(x):
    return Fr(repr(float(x))) if x == x and abs(x) != float("inf") else x


def _static_int(i):
    if isinstance(i, bool):
        return int(i)
    if isinstance(i, int):
        return i
    if isinstance(i, Fr) and i.denominator == 1:
        return int(i)
    if isinstance(i, Poly):
        n = i.as_number()
        if isinstance(n, int):
            return n
    raise Unsupported(f"non-static index {i!r}")
