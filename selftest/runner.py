"""./check --selftest [Cxx ...] [-j N]   : applies every witness to a scratch copy of the package and runs
the named property's check on it (mutations must be reported, benign refactors must stay silent)."""

from __future__ import annotations

import os
import shutil
import subprocess
import sys
import tempfile
from concurrent.futures import ThreadPoolExecutor

HERE = os.path.dirname(os.path.dirname(os.path.abspath(__file__)))


def run_one(w, repo):
    src = os.path.join(repo, "exponax", w["file"])
    try:
        text = open(src, encoding="utf-8").read()
    except FileNotFoundError:
        return w, "stale", f"file {w['file']} not found"
    olds = w["old"] if isinstance(w["old"], tuple) else (w["old"],)
    news = w["new"] if isinstance(w["new"], tuple) else (w["new"],)
    for o in olds:
        if text.count(o) != w.get("count", 1):
            return w, "stale", f"anchor text occurs {text.count(o)} times (expected {w.get('count', 1)}): {o[:60]!r}"
    variant = text
    for o, n in zip(olds, news):
        variant = variant.replace(o, n)
    tmp = tempfile.mkdtemp(prefix="vf_selftest_")
    try:
        shutil.copytree(os.path.join(repo, "exponax"), os.path.join(tmp, "exponax"), ignore=shutil.ignore_patterns("__pycache__"))
        with open(os.path.join(tmp, "exponax", w["file"]), "w", encoding="utf-8") as f:
            f.write(variant)
        # the variant must still be syntactically valid python
        try:
            compile(variant, w["file"], "exec")
        except SyntaxError as e:
            return w, "broken-witness", f"variant does not compile: {e}"
        env = dict(os.environ, VF_REPO=tmp, VF_NO_EVIDENCE="1")
        p = subprocess.run([os.path.join(HERE, "check"), w["prop"]], capture_output=True, text=True, env=env, cwd=HERE, timeout=900)
        out = p.stdout + p.stderr
        viol = [l for l in out.splitlines() if l.startswith("VIOLATION")]
        if w["kind"] == "mutation":
            if p.returncode == 1 and viol:
                return w, "ok", viol[0][:260]
            return w, "MISSED", f"exit {p.returncode}: {out.strip().splitlines()[-1][:200] if out.strip() else ''}"
        else:
            if p.returncode == 0 and not viol:
                return w, "ok", "silent"
            return w, "FALSE-ALARM", f"exit {p.returncode}: {(viol or out.strip().splitlines()[-1:])[0][:260]}"
    finally:
        shutil.rmtree(tmp, ignore_errors=True)


def main(argv):
    sys.path.insert(0, HERE)
    from selftest.witnesses import W

    jobs = 16
    props = []
    it = iter(argv)
    for a in it:
        if a == "-j":
            jobs = int(next(it))
        else:
            props.append(a)
    repo = os.environ.get("VF_REPO", "/repo")
    ws = [w for w in W if not props or w["prop"] in props]
    bad = 0
    with ThreadPoolExecutor(max_workers=jobs) as ex:
        for w, status, detail in ex.map(lambda w: run_one(w, repo), ws):
            mark = "ok " if status == "ok" else status
            print(f"[{mark}] {w['kind']:8s} {w['prop']} {w['id']}: {detail}")
            if status != "ok":
                bad += 1
    print(f"selftest: {len(ws)} witnesses, {bad} problems")
    return 0 if bad == 0 else 2


if __name__ == "__main__":
    sys.exit(main(sys.argv[1:]))
