"""Positive fixture for the banned-construct rules of C07 / C19: every rule must match here on every run
(a rule that matches nothing passes vacuously forever).  This file is never imported."""
import jax
import jax.numpy as jnp
import numpy as np


def bad_ad(x, scale):
    y = jax.lax.stop_gradient(x) * scale            # C07: stop_gradient
    y = jnp.round(y) + jnp.sign(y) + jnp.floor(y)   # C07: piecewise-constant primitives
    k = jnp.argmax(y)                               # C07: argmax
    z = y.astype(int)                               # C07: integer cast
    w = np.sin(float(scale))                        # C07: numpy / float() on a value
    v = jax.lax.while_loop(lambda c: c < 3, lambda c: c + 1, 0)  # C07: while_loop
    q = jax.pure_callback(lambda a: a, x, x)        # C07: callback
    return y, k, z, w, v, q


@jax.custom_jvp
def hand_written_derivative(x):                     # C07: custom derivative rules need review
    return x


def bad_precision(x):
    a = x.astype(jnp.float32)                       # C19: pinned width
    b = jnp.zeros(3, dtype=jnp.complex64)           # C19
    c = jnp.ones(3, dtype="float64")                # C19: string dtype
    d = np.float32(1.0)                             # C19
    jax.config.update("jax_enable_x64", True)       # C19: session config changed by the library
    return a, b, c, d
