"""Witnesses for testing the checkers both ways (DESIGN 6.5).

Each witness is an edit of one file of the package, given as (old substring -> new substring); `old` must
occur exactly `count` times (default 1) - a witness whose anchor text vanished is reported as stale, never
silently skipped.  kind = "mutation": the named property's check must exit 1 with a VIOLATION line;
kind = "benign": a behaviour-preserving refactor, the check must exit 0.

The mutations were chosen so that the package still imports; most of them also keep the repository's
test-suite green (the suite samples one configuration where the mutation needs another).
"""

W = []


def mut(id, prop, file, old, new, note="", count=1):
    W.append({"id": id, "kind": "mutation", "prop": prop, "file": file, "old": old, "new": new, "note": note, "count": count})


def ben(id, prop, file, old, new, note="", count=1):
    W.append({"id": id, "kind": "benign", "prop": prop, "file": file, "old": old, "new": new, "note": note, "count": count})


# ------------------------------------------------------------------------------------------ C01
mut("c01-advection-sign", "C01", "stepper/_advection.py", "return -build_gradient_inner_product_operator(", "return build_gradient_inner_product_operator(", "advection in the wrong direction")
mut("c01-hyper-order", "C01", "stepper/_hyper_diffusion.py", "* build_laplace_operator(\n                derivative_operator, order=4\n            )", "* build_laplace_operator(\n                derivative_operator, order=2\n            )", "non-mixing hyper-diffusion uses the wrong order")
mut("c01-wave-dc-guard", "C01", "stepper/_wave.py", "h_hat = w_hat / (1j * self.speed_of_sound * k_guard)", "h_hat = w_hat / (1j * self.speed_of_sound * self.wavenumber_norm)", "division by zero at the mean mode")
mut("c01-dispersion-mix", "C01", "stepper/_dispersion.py", "derivative_operator, self.dispersivity, order=3\n            )", "derivative_operator, self.dispersivity, order=1\n            )", "non-mixing dispersion of order 1")
mut("c01-general-linear-index", "C01", "stepper/generic/_linear.py", "                c * (derivative_operator) ** i,", "                c * (derivative_operator) ** (i + 1),", "coefficient index shifted by one")
mut("c01-normalized-dt", "C01", "stepper/generic/_linear.py", "            domain_extent=1.0,\n            num_points=num_points,\n            dt=1.0,", "            domain_extent=1.0,\n            num_points=num_points,\n            dt=0.1,", "normalized stepper not on dt=1")
ben("c01-diffusion-einsum-transpose", "C01", "stepper/_diffusion.py", '"ij,ij...->..."', '"ji,ij...->..."', "outer product D_i D_j is symmetric")
ben("c01-advection-temporary", "C01", "stepper/_advection.py", "        return -build_gradient_inner_product_operator(\n            derivative_operator, self.velocity, order=1\n        )", "        op = build_gradient_inner_product_operator(\n            derivative_operator, self.velocity, order=1\n        )\n        neg = -1.0 * op\n        return neg", "temporary + multiplication by -1")
# ------------------------------------------------------------------------------------------ C02
mut("c02-etdrk4-c5-sign", "C02", "etdrk/_etdrk_4.py", "c5 = ((2 + lr + exp_lr * (-2 + lr)) / lr**3)", "c5 = ((2 + lr + exp_lr * (-2 - lr)) / lr**3)", "sign in one integrand")
mut("c02-etdrk4-factor2", "C02", "etdrk/_etdrk_4.py", "+ self._coef_5 * 2 * (u_stage_1_nonlin_hat + u_stage_2_nonlin_hat)", "+ self._coef_5 * (u_stage_1_nonlin_hat + u_stage_2_nonlin_hat)", "factor 2 dropped in the final stage")
mut("c02-etdrk3-halfexp", "C02", "etdrk/_etdrk_3.py", "u_stage_1_hat = self._half_exp_term * u_hat + self._coef_1 * u_nonlin_hat", "u_stage_1_hat = self._exp_term * u_hat + self._coef_1 * u_nonlin_hat", "full instead of half step propagator in stage 1")
mut("c02-dispatch", "C02", "_base_stepper.py", "        elif order == 3:\n            self._integrator = ETDRK3(", "        elif order == 3:\n            self._integrator = ETDRK2(", "order 3 builds the second-order scheme")
mut("c02-real-part", "C02", "etdrk/_etdrk_2.py", "c2 = ((exp_lr - 1 - lr) / lr**2)", "c2 = ((exp_lr - 1 - lr) / lr**2).real", "real-part truncation returns (F1)")
mut("c02-roots", "C02", "etdrk/_utils.py", "(jnp.arange(1, M + 1) - 0.5)", "(jnp.arange(1, M + 1))", "contour points include the real axis")
ben("c02-etdrk2-inline", "C02", "etdrk/_etdrk_2.py", "        u_next_hat = u_stage_1_hat + self._coef_2 * (\n            u_stage_1_nonlin_hat - u_nonlin_hat\n        )", "        correction = self._coef_2 * u_stage_1_nonlin_hat - u_nonlin_hat * self._coef_2\n        u_next_hat = correction + u_stage_1_hat", "distributed and reordered")
ben("c02-etdrk1-division", "C02", "etdrk/_etdrk_1.py", "return acc + (exp_lr - 1) / lr, None", "return acc + exp_lr / lr - 1 / lr, None", "split fraction")
# ------------------------------------------------------------------------------------------ C03
mut("c03-cross-sign", "C03", "nonlin_fun/_projected_convection.py", "c2 = a[2] * b[0] - a[0] * b[2]", "c2 = a[2] * b[0] + a[0] * b[2]", "one sign of the cross product")
mut("c03-cutoff", "C03", "nonlin_fun/_base.py", "cutoff=start_of_aliased_modes - 1", "cutoff=start_of_aliased_modes", "cutoff off by one: aliasing for the 2/3 rule")
mut("c03-allen-cahn-fraction", "C03", "stepper/reaction/_allen_cahn.py", "dealiasing_fraction: float = 1 / 2", "dealiasing_fraction: float = 2 / 3", "cubic term with the quadratic fraction")
mut("c03-gradnorm-half", "C03", "nonlin_fun/_gradient_norm.py", "u_gradient_norm_squared_hat = 0.5 * self.fft(u_gradient_norm_squared)", "u_gradient_norm_squared_hat = self.fft(u_gradient_norm_squared)", "factor 1/2 dropped")
mut("c03-conv-axis", "C03", "nonlin_fun/_convection.py", "            self.derivative_operator[None, :] * u_outer_product_hat,", "            self.derivative_operator[:, None] * u_outer_product_hat,", "divergence taken with the channel's own derivative")
mut("c03-no-post-dealias", "C03", "nonlin_fun/_base.py", "        u_hat = fft(u, num_spatial_dims=self.num_spatial_dims)\n        if self.dealiasing_mask is not None:\n            u_hat = self.dealiasing_mask * u_hat\n        return u_hat", "        u_hat = fft(u, num_spatial_dims=self.num_spatial_dims)\n        return u_hat", "post-dealiasing lost")
mut("c03-class-default-fraction", "C03", "nonlin_fun/_projected_convection.py", "        dealiasing_fraction: float = 2 / 3,\n    ):\n        \"\"\"\n        Performs a pseudo-spectral evaluation of the nonlinear convection term", "        dealiasing_fraction: float = 2 / 2,\n    ):\n        \"\"\"\n        Performs a pseudo-spectral evaluation of the nonlinear convection term", "default fraction of a public nonlinear-function class no longer alias-free (mutation survey survivor)")
mut("c03-mask-default-radial", "C03", "_spectral.py", "    cutoff: int,\n    axis_separate: bool = True,", "    cutoff: int,\n    axis_separate: bool = False,", "default of the mask helper flipped: radial instead of per-axis band")
ben("c03-class-default-smaller", "C03", "nonlin_fun/_convection.py", "        dealiasing_fraction: float = 2 / 3,", "        dealiasing_fraction: float = 1 / 2,", "a smaller default fraction stays alias-free")
ben("c03-conv-reorder", "C03", "nonlin_fun/_convection.py", "            u * nabla_u,\n            axis=0,", "            nabla_u * u,\n            axis=0,", "commuted product")
ben("c03-gs-rewrite", "C03", "stepper/reaction/_gray_scott.py", "self.feed_rate * (1 - u[0]) - u[0] * u[1] ** 2,", "self.feed_rate - self.feed_rate * u[0] - u[1] * u[0] * u[1],", "expanded polynomial")
# ------------------------------------------------------------------------------------------ C04
mut("c04-scaling-swap", "C04", "_spectral.py", "        num_points / right_most_scaling_denominator,", "        num_points / others_scaling_denominator,", "reconstruction scaling of the halved axis")
mut("c04-norm-ortho", "C04", "_spectral.py", "return jnp.fft.rfftn(field, axes=space_indices(num_spatial_dims))", 'return jnp.fft.rfftn(field, axes=space_indices(num_spatial_dims), norm="ortho")', "norm on one transform only")
mut("c04-grid-endpoint", "C04", "_utils.py", "grid_1d = jnp.linspace(0, domain_extent, num_points, endpoint=False)", "grid_1d = jnp.linspace(0, domain_extent, num_points, endpoint=True)", "right-inclusive grid")
mut("c04-xy-regression", "C04", "_spectral.py", "        wavenumber_list[0], wavenumber_list[1] = wavenumber_list[1], wavenumber_list[0]", "        pass", "F2 returns")
mut("c04-oddball", "C04", "_spectral.py", "cutoff=mode_below_nyquist - 1,", "cutoff=mode_below_nyquist,", "Nyquist mode not removed")
ben("c04-wavenumber-shape", "C04", "_spectral.py", "return (num_points,) * (num_spatial_dims - 1) + (num_points // 2 + 1,)", "half = num_points // 2 + 1\n    return tuple([num_points] * (num_spatial_dims - 1)) + (half,)", "temporary")
# ------------------------------------------------------------------------------------------ C05
mut("c05-poisson-sign", "C05", "_poisson.py", "return -self._inv_operator * f_hat", "return self._inv_operator * f_hat", "sign of the Poisson solution")
mut("c05-laplace-guard", "C05", "_spectral.py", "    if order % 2 != 0:\n        raise ValueError(\"Order must be even.\")", "    if order % 2 != 0 and order > 3:\n        raise ValueError(\"Order must be even.\")", "odd orders 1 and 3 accepted")
mut("c05-derivative-axis", "C05", "_spectral.py", "field_der_hat = field_hat[:, None] * derivative_operator_fixed[None, ...]", "field_der_hat = field_hat[None, :] * derivative_operator_fixed[:, None]", "derivative axis before the channel axis")
ben("c05-poisson-where", "C05", "_poisson.py", "self._inv_operator = jnp.where(operator == 0, 0.0, 1 / operator)", "self._inv_operator = jnp.where(operator != 0, 1 / operator, 0.0)", "guard spelled the other way round")
# ------------------------------------------------------------------------------------------ C06
mut("c06-branch-on-float", "C06", "stepper/_burgers.py", "        self.diffusivity = diffusivity\n", "        self.diffusivity = diffusivity if diffusivity > 0 else 0.0\n", "Python branch on a coefficient")
mut("c06-float-coercion", "C06", "nonlin_fun/_convection.py", "        return -self.scale * convection\n", "        return -float(self.scale) * convection\n", "float() of a traced field", count=2)
mut("c06-isinstance-regression", "C06", "stepper/_advection.py", "if jnp.ndim(velocity) == 0:", "if isinstance(velocity, float):", "F7 returns")
mut("c06-branch-on-state", "C06", "etdrk/_etdrk_2.py", "        u_nonlin_hat = self._nonlinear_fun(u_hat)\n", "        u_nonlin_hat = self._nonlinear_fun(u_hat)\n        if jnp.abs(u_hat).max() > 1e6:\n            u_nonlin_hat = 0 * u_nonlin_hat\n", "state-dependent Python branch")
ben("c06-static-branch", "C06", "stepper/_burgers.py", "num_channels = 1 if single_channel else num_spatial_dims", "if single_channel:\n            num_channels = 1\n        else:\n            num_channels = num_spatial_dims", "branch on a static flag")
# ------------------------------------------------------------------------------------------ C07
mut("c07-stop-gradient", "C07", "stepper/_wave.py", ("import jax.numpy as jnp\n", "        val = 1j * self.speed_of_sound * self.wavenumber_norm"), ("import jax\nimport jax.numpy as jnp\n", "        val = 1j * jax.lax.stop_gradient(self.speed_of_sound) * self.wavenumber_norm"), "gradient w.r.t. the speed of sound blocked")
mut("c07-where-param", "C07", "nonlin_fun/_vorticity_convection.py", "self.inv_laplacian = jnp.where(laplacian == 0, 1.0, 1 / laplacian)", "self.inv_laplacian = jnp.where(laplacian == 0, 1.0, 1 / (convection_scale * laplacian))", "NaN gradient w.r.t. the convection scale")
mut("c07-nonlinear-linear-stepper", "C07", "etdrk/_etdrk_0.py", "return self._exp_term * u_hat", "return self._exp_term * u_hat + 1e-3 * u_hat * abs(u_hat)", "linear stepper no longer linear")
ben("c07-where-order", "C07", "nonlin_fun/_leray.py", "            laplace_operator != 0, 1.0 / laplace_operator, 0.0", "            laplace_operator == 0, 0.0, 1.0 / laplace_operator", "guard spelled the other way round")
# ------------------------------------------------------------------------------------------ C08
mut("c08-axis-asymmetry", "C08", "nonlin_fun/_convection.py", "        sum_of_derivatives_operator = jnp.sum(\n            self.derivative_operator, axis=0, keepdims=True\n        )", "        sum_of_derivatives_operator = self.derivative_operator[0:1] + 0.0 * jnp.sum(\n            self.derivative_operator, axis=0, keepdims=True\n        )", "only the first axis convects")
mut("c08-cross-asymmetric", "C08", "nonlin_fun/_projected_convection.py", "c3 = a[0] * b[1] - a[1] * b[0]", "c3 = a[0] * b[1] - 2 * a[1] * b[0]", "one cross-product component weighted")
mut("c08-position-dependence", "C08", "nonlin_fun/_gradient_norm.py", "        u_gradient_norm_squared_hat = 0.5 * self.fft(u_gradient_norm_squared)", "        x = jnp.linspace(0.0, 1.0, self.num_points, endpoint=False)\n        u_gradient_norm_squared_hat = 0.5 * self.fft(u_gradient_norm_squared * (1.0 + 1e-3 * x))", "position-dependent factor")
# ------------------------------------------------------------------------------------------ C09
mut("c09-zero-mode-fix", "C09", "stepper/_kuramoto_sivashinsky.py", "            zero_mode_fix=True,", "            zero_mode_fix=False,", "mean no longer removed in KS")
mut("c09-fisher", "C09", "stepper/reaction/_fisher_kpp.py", "coefficients=[0.0, 0.0, -self.reactivity],", "coefficients=[0.0, 0.0, -2 * self.reactivity],", "u=1 no longer an equilibrium")
mut("c09-cahn-hilliard", "C09", "stepper/reaction/_cahn_hilliard.py", "u_power_laplace_hat = self.laplace_operator * u_power_hat", "u_power_laplace_hat = (self.laplace_operator - 1.0) * u_power_hat", "mass no longer conserved")
# ------------------------------------------------------------------------------------------ C10
mut("c10-leray-sign", "C10", "nonlin_fun/_leray.py", "return u_hat + grad_pressure_hat", "return u_hat - grad_pressure_hat", "projection adds instead of removes the gradient part")
mut("c10-no-projection", "C10", "nonlin_fun/_projected_convection.py", "convection_projected_hat = self.leray_projection(convection_hat)", "convection_projected_hat = convection_hat", "convection not projected")
mut("c10-make-incompressible", "C10", "_spectral.py", "incompressible_field_hat = incompressible_field_hat - pseudo_pressure_gradient", "incompressible_field_hat = incompressible_field_hat - 0.5 * pseudo_pressure_gradient", "half of the pressure gradient removed")
# ------------------------------------------------------------------------------------------ C11
mut("c11-hyper-sign", "C11", "stepper/_hyper_diffusion.py", "            linear_operator = -self.hyper_diffusivity * build_laplace_operator(", "            linear_operator = self.hyper_diffusivity * build_laplace_operator(", "amplifying hyper-diffusion")
mut("c11-wave-rotation", "C11", "stepper/_wave.py", "neg = (1 / jnp.sqrt(2)) * (w_hat - v_hat)", "neg = (1 / jnp.sqrt(2)) * (w_hat - 2 * v_hat)", "rotation no longer orthonormal")
# ------------------------------------------------------------------------------------------ C12
mut("c12-forced-dt", "C12", "_forced_stepper.py", "u_with_force = u + self.stepper.dt * f", "u_with_force = u + f", "forcing not scaled by dt")
mut("c12-injection-channel", "C12", "nonlin_fun/_projected_convection.py", "self.injection = jnp.concatenate([injection_single, zeros, zeros], axis=0)", "self.injection = jnp.concatenate([zeros, injection_single, zeros], axis=0)", "forcing in the wrong channel")
mut("c12-2pi-regression", "C12", "nonlin_fun/_vorticity_convection.py", "vorticity_factor = (1j * derivative_operator[1:2]).real", "vorticity_factor = -injection_mode", "F3 returns")
# ------------------------------------------------------------------------------------------ C13
mut("c13-difficulty-power", "C13", "stepper/generic/_utils.py", "gamma / (num_points**j * 2 ** (j - 1) * num_spatial_dims)", "gamma / (num_points**j * 2**j * num_spatial_dims)", "2^(j-1) -> 2^j in the extraction only")
mut("c13-kdv-sign", "C13", "stepper/_korteweg_de_vries.py", "            hyper_diffusion_operator = -self.hyper_diffusivity * build_laplace_operator(", "            hyper_diffusion_operator = self.hyper_diffusivity * build_laplace_operator(", "KdV hyper-viscosity sign")
mut("c13-normalized-dt", "C13", "stepper/generic/_convection.py", "            dt=1.0,", "            dt=0.5,", "normalized convection stepper on dt=0.5")
# ------------------------------------------------------------------------------------------ C14
mut("c14-emit-old", "C14", "_utils.py", "            u_next = stepper_fn(u, aux)\n            return u_next, u_next", "            u_next = stepper_fn(u, aux)\n            return u_next, u", "rollout with aux emits the old state")
mut("c14-init-order", "C14", "_utils.py", "[jnp.expand_dims(init, axis=0), history]", "[history, jnp.expand_dims(init, axis=0)]", "initial state appended instead of prepended", count=2)
mut("c14-window-start", "C14", "_utils.py", "start_index=i,", "start_index=i + 1,", "windows start one step late")
mut("c14-repeated-dt", "C14", "_repeated_stepper.py", "self.dt = stepper.dt * num_sub_steps", "self.dt = stepper.dt", "effective dt not scaled")
mut("c14-ic-key", "C14", "_utils.py", "ic = ic_generator(num_points, key=sub_k)", "ic = ic_generator(num_points, key=k)", "sample drawn with the carried key")
mut("c14-traced-regression", "C14", "ic/_sine_waves_1d.py", "if std_one and isinstance(offset, (int, float)) and offset != 0.0:", "if offset != 0.0 and std_one:", "F9 returns")
# ------------------------------------------------------------------------------------------ C15
mut("c15-min-max", "C15", "_interpolation.py", "        min(old_num_points, new_num_points),", "        max(old_num_points, new_num_points),", "mode blocks of the larger grid")
mut("c15-interp-abs", "C15", "_interpolation.py", "jnp.real(", "jnp.abs(", "modulus instead of real part")
mut("c15-slices", "C15", "_spectral.py", "left_slice = slice(None, nyquist_mode + 1)", "left_slice = slice(None, nyquist_mode + 2)", "odd-grid block one mode too long")
# ------------------------------------------------------------------------------------------ C16
mut("c16-band-edge", "C16", "metrics/_fourier.py", "cutoff=low - 1", "cutoff=low", "lower band edge excluded")
mut("c16-h1-forward", "C16", "metrics/_derivative.py", "low=low,", "low=None,", "H1_MAE drops `low` for its value term", count=12)
mut("c16-symmetric", "C16", "metrics/_spatial.py", "2 * diff_norm_per_channel", "diff_norm_per_channel", "factor 2 of the symmetric mode dropped")
# ------------------------------------------------------------------------------------------ C17
mut("c17-bucket", "C17", "_spectral.py", "wavenumbers_norm[0] < upper_limit", "wavenumbers_norm[0] <= upper_limit", "buckets closed above: double counting")
mut("c17-half", "C17", "_spectral.py", "quantity = 0.5 * magnitude * magnitude_norm_compensated", "quantity = magnitude * magnitude_norm_compensated", "factor 1/2 dropped")
mut("c17-reducer", "C17", "_spectral.py", "return jnp.nanmean(p, where=mask)", "return jnp.nansum(p, where=mask)", "average binning sums")
# ------------------------------------------------------------------------------------------ C18
mut("c18-key-reuse", "C18", "ic/_sine_waves_1d.py", "amplitude_key, phase_key, offset_key = jr.split(key, 3)", "amplitude_key, phase_key, offset_key = jr.split(key, 3); phase_key = amplitude_key", "amplitudes and phases from the same key")
mut("c18-grf-exponent", "C18", "ic/_gaussian_random_field.py", "-self.powerlaw_exponent / 2.0", "-self.powerlaw_exponent", "power-law exponent not halved")
mut("c18-offset-regression", "C18", "ic/_truncated_fourier_series.py", ".set(offset * num_points**self.num_spatial_dims)", ".set(offset)", "F5 returns")
mut("c18-mask-regression", "C18", "ic/_discontinuities.py", "mask = jnp.ones_like(x[0:1], dtype=bool)", "mask = jnp.ones_like(x, dtype=bool)", "F6 returns")
ben("c18-normalize-temporaries", "C18", "ic/_base_ic.py", "        ic = ic - jnp.mean(ic)\n", "        m = jnp.mean(ic)\n        ic = -m + ic\n", "temporary, reordered")
# ------------------------------------------------------------------------------------------ C19
mut("c19-dtype", "C19", "nonlin_fun/_zero.py", "return jnp.zeros_like(u_hat)", "return jnp.zeros(u_hat.shape, dtype=jnp.complex64)", "pinned complex width")
mut("c19-closed-form", "C19", "etdrk/_etdrk_1.py", "return acc + (exp_lr - 1) / lr, None", "return acc + (jnp.exp(L_dt) - 1) / L_dt, None", "closed form without contour shift: 0/0 at lambda=0")
mut("c19-accumulator", "C19", "etdrk/_etdrk_2.py", "zeros = jnp.zeros_like(L_dt)", "zeros = jnp.zeros_like(L_dt.real)", "real accumulator")
# ------------------------------------------------------------------------------------------ C20
mut("c20-shape-compare", "C20", "_base_stepper.py", "        if u.shape != expected_shape:", "        if len(u.shape) != len(expected_shape):", "only the rank is compared")
mut("c20-poisson", "C20", "_poisson.py", "if f.shape[1:] != spatial_shape(self.num_spatial_dims, self.num_points):", "if f.shape[-1] != self.num_points:", "only the last axis is compared")
mut("c20-override", "C20", "stepper/_burgers.py", "class Burgers(BaseStepper):\n", "class Burgers(BaseStepper):\n    def __call__(self, u):\n        return self.step(u)\n\n", "unguarded __call__ override")
ben("c20-guard-not", "C20", "_base_stepper.py", "        if u.shape != expected_shape:", "        if not (u.shape == expected_shape):", "equivalent guard")

# ------------------------------------------------------------------------------------------ more benign refactors
ben("c04-math-pi", "C04", "_spectral.py", ("from itertools import product\n", "scale = 2 * jnp.pi / domain_extent"), ("import math\nfrom itertools import product\n", "scale = math.pi * 2 / domain_extent"), "math.pi instead of jnp.pi")
ben("c01-math-pi", "C01", "_spectral.py", ("from itertools import product\n", "scale = 2 * jnp.pi / domain_extent"), ("import math\nfrom itertools import product\n", "scale = math.pi * 2 / domain_extent"), "math.pi instead of jnp.pi")
ben("c05-guard-not", "C05", "_spectral.py", "    if order % 2 != 0:\n        raise ValueError(\"Order must be even.\")", "    if not (order % 2 == 0):\n        raise ValueError(\"Order must be even.\")", "guard spelled differently")
ben("c10-leray-inline", "C10", "nonlin_fun/_leray.py", "        return u_hat + grad_pressure_hat", "        return u_hat - self.derivative_operator * (self.inv_laplacian * div_u_hat)", "inlined with the sign moved")
ben("c03-leray-inline", "C03", "nonlin_fun/_leray.py", "        return u_hat + grad_pressure_hat", "        return u_hat - self.derivative_operator * (self.inv_laplacian * div_u_hat)", "inlined with the sign moved")
ben("c17-half", "C17", "_spectral.py", ("lower_limit = k - dk / 2", "upper_limit = k + dk / 2"), ("lower_limit = k - 0.5 * dk", "upper_limit = 0.5 * dk + k"), "0.5 * dk instead of dk / 2")
ben("c16-scale", "C16", "metrics/_spatial.py", "scale = (domain_extent / num_points) ** num_spatial_dims", "scale = domain_extent**num_spatial_dims / num_points**num_spatial_dims", "power distributed")
ben("c13-normalize-rewrite", "C13", "stepper/generic/_utils.py", "c * dt / (domain_extent**i) for i, c in enumerate(coefficients)", "dt * c * domain_extent ** (-i) for i, c in enumerate(coefficients)", "negative exponent")
ben("c15-min-ifexp", "C15", "_interpolation.py", "        min(old_num_points, new_num_points),", "        (old_num_points if old_num_points < new_num_points else new_num_points),", "min spelled as a conditional expression")
ben("c03-helper-method", "C03", "nonlin_fun/_gradient_norm.py", "        u_gradient_norm_squared_hat = 0.5 * self.fft(u_gradient_norm_squared)\n\n        # Requires minus to move term to the rhs\n        return -self.scale * u_gradient_norm_squared_hat", "        return self._finish(u_gradient_norm_squared)\n\n    def _finish(self, g):\n        g_hat = self.fft(g)\n        return g_hat * (-self.scale / 2)", "tail extracted into a helper method")
ben("c09-helper-method", "C09", "nonlin_fun/_gradient_norm.py", "        u_gradient_norm_squared_hat = 0.5 * self.fft(u_gradient_norm_squared)\n\n        # Requires minus to move term to the rhs\n        return -self.scale * u_gradient_norm_squared_hat", "        return self._finish(u_gradient_norm_squared)\n\n    def _finish(self, g):\n        g_hat = self.fft(g)\n        return g_hat * (-self.scale / 2)", "tail extracted into a helper method")
ben("c12-forced-temp", "C12", "_forced_stepper.py", "        u_with_force = u + self.stepper.dt * f\n        return self.stepper.step(u_with_force)", "        inner = self.stepper\n        return inner.step(f * inner.dt + u)", "temporary, commuted")
ben("c14-rollout-rename", "C14", "_utils.py", "            u_next = stepper_fn(u)\n            return u_next, u_next", "            new_state = stepper_fn(u)\n            return (new_state, new_state)", "renamed local", count=1)
ben("c02-property", "C02", "etdrk/_etdrk_1.py", ("        return self._exp_term * u_hat + self._coef_1 * self._nonlinear_fun(u_hat)", ), ("        return self.propagator * u_hat + self._coef_1 * self._nonlinear_fun(u_hat)\n\n    @property\n    def propagator(self):\n        return self._exp_term", ), "field read through a property")
ben("c20-call-guard-helper", "C20", "_base_stepper.py", "        if u.shape != expected_shape:\n            raise ValueError(", "        self._check(u, expected_shape)\n        return self.step(u)\n\n    def _check(self, u, expected_shape):\n        if u.shape != expected_shape:\n            raise ValueError(", "guard moved into a helper called unconditionally")
ben("c06-try", "C06", "_base_stepper.py", "        self.dx = domain_extent / num_points\n", "        try:\n            self.dx = domain_extent / num_points\n        except ZeroDivisionError:\n            raise ValueError(\"num_points must be positive\")\n", "try/except around a static computation")

# ------------------------------------------------------------------------------------------ mutation-survey survivors (round 1)
mut("c04-derivative-indexing-not-forwarded", "C04", "_spectral.py", "    derivative_operator = build_derivative_operator(\n        num_spatial_dims, domain_extent, num_points, indexing=indexing\n    )\n    # # I decided", "    derivative_operator = build_derivative_operator(\n        num_spatial_dims, domain_extent, num_points\n    )\n    # # I decided", "derivative(indexing='xy') differentiates along the wrong array axis")
mut("c04-incompressible-indexing-not-forwarded", "C04", "_spectral.py", "        num_spatial_dims, 1.0, num_points, indexing=indexing\n", "        num_spatial_dims, 1.0, num_points\n", "make_incompressible(indexing='xy') projects with transposed wavenumbers")
mut("c15-interpolator-wavenumber-indexing", "C15", "_interpolation.py", "            self.num_points,\n            indexing=indexing,\n        )\n\n    def __call__", "            self.num_points,\n        )\n\n    def __call__", "FourierInterpolator(indexing='xy') pairs query coordinates with the wrong axis")
ben("c15-interpolator-scaling-indexing", "C15", "_interpolation.py", "                mode=\"reconstruction\",\n                indexing=indexing,\n", "                mode=\"reconstruction\",\n", "the scaling array is a product of per-axis factors with equal leading axes: indexing does not change it")

# ------------------------------------------------------------------------------------------ seeded wave 4 lessons
mut("c03-zero-fix-last-axis-only", "C03", "nonlin_fun/_gradient_norm.py", "        return f - jnp.mean(f)", "        return f - jnp.mean(f, axis=-1, keepdims=True)", "mean removed along the last axis only: all k_last = 0 modes wiped (seeded S22)")
ben("c03-zero-fix-nested-means", "C03", "nonlin_fun/_gradient_norm.py", "        return f - jnp.mean(f)", "        m = f\n        for _ in range(f.ndim):\n            m = jnp.mean(m, axis=-1)\n        return f - m", "global mean as nested per-axis means")
ben("c03-norm-squared", "C03", "nonlin_fun/_gradient_norm.py", "u_gradient_norm_squared = jnp.sum(u_gradient**2, axis=1)", "u_gradient_norm_squared = jnp.linalg.norm(u_gradient, axis=1) ** 2", "same value (the derivative is what breaks: C07)")
mut("c07-norm-squared", "C07", "nonlin_fun/_gradient_norm.py", "u_gradient_norm_squared = jnp.sum(u_gradient**2, axis=1)", "u_gradient_norm_squared = jnp.linalg.norm(u_gradient, axis=1) ** 2", "sqrt of a state-dependent sum of squares: NaN derivative at constant states (seeded S19)")
mut("c07-sqrt-square", "C07", "nonlin_fun/_convection.py", "        u = self.ifft(u_hat)\n        nabla_u = self.ifft(self.derivative_operator * u_hat)", "        u = self.ifft(u_hat)\n        u = jnp.sqrt(u**2 + 0.0 * u)\n        nabla_u = self.ifft(self.derivative_operator * u_hat)", "sqrt of the squared state (|u|): derivative undefined at u = 0")
ben("c07-sqrt-geometry", "C07", "stepper/_wave.py", "jnp.sqrt(2)", "jnp.sqrt(2.0)", "sqrt of a constant", count=4)
mut("c04-ifft-infer-last-axis", "C04", "_spectral.py", "            num_points = field_hat.shape[-2]", "            num_points = 2 * (field_hat.shape[-1] - 1)", "inferred num_points wrong for odd N (seeded S27)")
mut("c18-offset-row", "C18", "ic/_truncated_fourier_series.py", "        noise_hat = (\n            noise_hat.flatten()\n            # the mean mode of the unnormalized rfft is the mean times N^d\n            .at[0]\n            .set(offset * num_points**self.num_spatial_dims)\n            .reshape(fourier_noise_shape)\n        )", "        noise_hat = noise_hat.at[0, 0].set(\n            offset * num_points**self.num_spatial_dims\n        )", "offset written into the whole k_0 = 0 row (seeded S26)")
ben("c18-offset-full-index", "C18", "ic/_truncated_fourier_series.py", "        noise_hat = (\n            noise_hat.flatten()\n            # the mean mode of the unnormalized rfft is the mean times N^d\n            .at[0]\n            .set(offset * num_points**self.num_spatial_dims)\n            .reshape(fourier_noise_shape)\n        )", "        noise_hat = noise_hat.at[(0,) * noise_hat.ndim].set(\n            offset * num_points**self.num_spatial_dims\n        )", "mean mode addressed by a full zero index")

# ------------------------------------------------------------------------------------------ mutation survey round 1: C18 draw ranges
mut("c18-blob-variance-range", "C18", "ic/_gaussian_blob.py", "maxval=self.variance_range[1] * self.domain_extent", "maxval=self.variance_range[0] * self.domain_extent", "degenerate variance range")
mut("c18-sine-amplitude-range", "C18", "ic/_sine_waves_1d.py", "minval=self.amplitude_range[0]", "minval=self.phase_range[0]", "amplitudes drawn from the phase range")
mut("c18-discontinuity-limit-range", "C18", "ic/_discontinuities.py", "lim_2 = jr.uniform(key_2, (), minval=0.0, maxval=self.domain_extent)", "lim_2 = jr.uniform(key_2, (), minval=1.0, maxval=self.domain_extent)", "limits not uniform over the domain (survey survivor)")
mut("c18-blob-position-unscaled", "C18", "ic/_gaussian_blob.py", "minval=self.position_range[0] * self.domain_extent", "minval=self.position_range[0]", "position range not scaled by the domain extent")
ben("c18-discontinuity-minmax-order", "C18", "ic/_discontinuities.py", "lower_limits.append(jnp.minimum(lim_1, lim_2))", "lower_limits.append(jnp.minimum(lim_2, lim_1))", "commuted minimum")

# ------------------------------------------------------------------------------------------ seeded wave 5 lessons
mut("c11-wave-guard-maximum", "C11", "stepper/_wave.py", "        k_guard = jnp.where(self.wavenumber_norm == 0, 1.0, self.wavenumber_norm)\n        w_hat", "        k_guard = jnp.maximum(self.wavenumber_norm, 1.0)\n        w_hat", "zero guard that also clips scaled wavenumbers below 1 (L > 2 pi) (seeded S32)")
ben("c01-wave-guard-greater", "C01", "stepper/_wave.py", "jnp.where(self.wavenumber_norm == 0, 1.0, self.wavenumber_norm)", "jnp.where(self.wavenumber_norm > 0, self.wavenumber_norm, 1.0)", "the norm is non-negative: > 0 is the complement of == 0", count=2)
ben("c11-wave-guard-greater", "C11", "stepper/_wave.py", "jnp.where(self.wavenumber_norm == 0, 1.0, self.wavenumber_norm)", "jnp.where(self.wavenumber_norm > 0, self.wavenumber_norm, 1.0)", "the norm is non-negative: > 0 is the complement of == 0", count=2)
mut("c06-special-branch-differs", "C06", "stepper/generic/_vorticity_convection.py", "            return VorticityConvection2d(\n                self.num_spatial_dims,\n                self.num_points,\n                convection_scale=self.vorticity_convection_scale,", "            return VorticityConvection2d(\n                self.num_spatial_dims,\n                self.num_points,\n                convection_scale=1.0,", "the injection_scale == 0 special case builds another stepper than the general branch at 0 (cf. seeded S29)")
ben("c06-special-branch-swapped", "C06", "stepper/generic/_vorticity_convection.py", "            isinstance(self.injection_scale, (int, float))\n            and self.injection_scale == 0.0\n        ):", "            isinstance(self.injection_scale, (int, float))\n            and 0.0 == self.injection_scale\n        ):", "comparison written the other way round")
mut("c12-negative-injection-dropped", "C12", "stepper/generic/_vorticity_convection.py", "            and self.injection_scale == 0.0\n", "            and self.injection_scale <= 0.0\n", "negative injection scales silently build the unforced term (seeded S33)")
mut("c06-value-range-branch", "C06", "stepper/generic/_vorticity_convection.py", "            and self.injection_scale == 0.0\n", "            and self.injection_scale <= 0.0\n", "eager construction follows the value range, a traced one cannot")
ben("c12-value-range-warning-only", "C12", "stepper/generic/_vorticity_convection.py", "        if (\n            isinstance(self.injection_scale, (int, float))\n            and self.injection_scale == 0.0\n        ):", "        if isinstance(self.injection_scale, (int, float)) and self.injection_scale < 0.0:\n            print(\"negative injection\")\n        if (\n            isinstance(self.injection_scale, (int, float))\n            and self.injection_scale == 0.0\n        ):", "a value-range branch without effect on the stepper")

# ------------------------------------------------------------------------------------------ unusual but legal idioms
ben("c05-inner-product-tensordot", "C05", "_spectral.py", "    operator = jnp.einsum(\n        \"i,i...->...\",\n        velocity,\n        derivative_operator**order,\n    )", "    operator = jnp.tensordot(velocity, derivative_operator**order, axes=1)", "einsum contraction written as tensordot")
ben("c01-diffusion-tensordot", "C01", "stepper/_diffusion.py", "        linear_operator = jnp.einsum(\n            \"ij,ij...->...\",\n            self.diffusivity,\n            laplace_outer_producct,\n        )", "        linear_operator = jnp.tensordot(self.diffusivity, laplace_outer_producct, axes=2)", "double contraction written as tensordot")
ben("c03-gs-lax-select-free", "C03", "nonlin_fun/_gradient_norm.py", "        u_gradient_norm_squared = jnp.sum(u_gradient**2, axis=1)", "        u_gradient_norm_squared = jnp.sum(jnp.square(u_gradient), axis=1)", "square instead of **2")
ben("c16-mean-metric-take", "C16", "metrics/_utils.py", "    return jnp.mean(metric_per_sample, axis=0)", "    return jnp.sum(metric_per_sample, axis=0) / jnp.size(metric_per_sample)", "mean as sum / size")
mut("c01-general-linear-polyval-total", "C01", "stepper/generic/_linear.py", "        linear_operator = sum(\n            jnp.sum(\n                c * (derivative_operator) ** i,\n                axis=0,\n                keepdims=True,\n            )\n            for i, c in enumerate(self.linear_coefficients)\n        )\n        return linear_operator", "        coefficients = jnp.asarray(self.linear_coefficients)[::-1]\n        total_derivative = jnp.sum(derivative_operator, axis=0, keepdims=True)\n        linear_operator = jnp.polyval(coefficients, total_derivative)\n        return linear_operator", "Horner on the axis-summed operator: cross terms (seeded S39)")
ben("c01-general-linear-polyval-per-axis", "C01", "stepper/generic/_linear.py", "        linear_operator = sum(\n            jnp.sum(\n                c * (derivative_operator) ** i,\n                axis=0,\n                keepdims=True,\n            )\n            for i, c in enumerate(self.linear_coefficients)\n        )\n        return linear_operator", "        coefficients = jnp.asarray(self.linear_coefficients)[::-1]\n        linear_operator = jnp.sum(jnp.polyval(coefficients, derivative_operator), axis=0, keepdims=True)\n        return linear_operator", "Horner per axis, then summed: the documented symbol")

# ------------------------------------------------------------------------------------------ mutation survey round 2b
mut("c20-general-nonlinear-two-channels", "C20", "stepper/generic/_nonlinear.py", "            dt=dt,\n            num_channels=1,\n            order=order,", "            dt=dt,\n            num_channels=2,\n            order=order,", "a scalar stepper that suddenly expects two channels (survey survivor)", count=1)
mut("c04-stepper-dx", "C04", "_base_stepper.py", "self.dx = domain_extent / num_points", "self.dx = domain_extent * num_points", "published grid spacing wrong (survey survivor)")

# ------------------------------------------------------------------------------------------ seeded wave 6 lessons
mut("c14-window-roll-flattened", "C14", "_utils.py", "            lambda leaf: jax.lax.dynamic_slice_in_dim(\n                leaf,\n                start_index=i,\n                slice_size=sub_len,\n                axis=0,\n            ),", "            lambda leaf: jnp.roll(leaf, -i)[:sub_len],", "roll without axis acts on the flattened leaf (seeded S48)")
ben("c14-window-roll-axis0", "C14", "_utils.py", "            lambda leaf: jax.lax.dynamic_slice_in_dim(\n                leaf,\n                start_index=i,\n                slice_size=sub_len,\n                axis=0,\n            ),", "            lambda leaf: jnp.roll(leaf, -i, axis=0)[:sub_len],", "the same window written with roll along the time axis")
ben("c14-window-dynamic-slice", "C14", "_utils.py", "            lambda leaf: jax.lax.dynamic_slice_in_dim(\n                leaf,\n                start_index=i,\n                slice_size=sub_len,\n                axis=0,\n            ),", "            lambda leaf: jax.lax.dynamic_slice(leaf, (i,) + (0,) * (leaf.ndim - 1), (sub_len,) + leaf.shape[1:]),", "the same window written with lax.dynamic_slice")
mut("c15-strided-downsampling", "C15", "_interpolation.py", "    if old_num_points == new_num_points:\n        return state\n", "    if old_num_points == new_num_points:\n        return state\n\n    if old_num_points % new_num_points == 0:\n        stride = old_num_points // new_num_points\n        return state[(slice(None),) + (slice(None, None, stride),) * num_spatial_dims]\n", "integer-ratio downsampling by strided slicing aliases (seeded S45)")

# ------------------------------------------------------------------------------------------ lessons of the benign refactorings B49-B56
ben("c18-grf-power-of-squared-norm", "C18", "ic/_gaussian_random_field.py", "        wavenumber_norm_grid = jnp.linalg.norm(wavenumber_grid, axis=0, keepdims=True)", "        wavenumber_norm_grid = jnp.sum(wavenumber_grid**2, axis=0, keepdims=True) ** 0.5", "norm written as the root of the sum of squares")
ben("c18-grf-exponent-on-squared-norm", "C18", "ic/_gaussian_random_field.py", "        amplitude = jnp.power(wavenumber_norm_grid, -self.powerlaw_exponent / 2.0)", "        amplitude = jnp.power(wavenumber_norm_grid**2, -self.powerlaw_exponent / 4.0)", "|k|^(-p/2) = (|k|^2)^(-p/4)")
ben("c16-correlation-vdot", "C16", "metrics/_correlation.py", "    correlation = jnp.dot(u_pred_normalized.flatten(), u_ref_normalized.flatten())", "    correlation = jnp.vdot(u_pred_normalized, u_ref_normalized)", "vdot flattens its arguments")
ben("c03-polynomial-accumulate", "C03", "nonlin_fun/_polynomial.py", "        u_power = 1.0\n        u_nonlin = 0.0\n        for coeff in self.coefficients:\n            u_nonlin += coeff * u_power\n            u_power = u_power * u\n", "        import itertools, operator\n        u_powers = itertools.accumulate(itertools.repeat(u), operator.mul, initial=1.0)\n        u_nonlin = sum((coeff * u_power for coeff, u_power in zip(self.coefficients, u_powers)), start=0.0)\n", "lazy power sequence")
ben("c04-oddball-as-lowpass", "C04", "_spectral.py", "    if num_points % 2 == 1:\n        # Odd number of degrees of freedom (no issue with the Nyquist mode)\n        return jnp.ones(\n            (1, *wavenumber_shape(num_spatial_dims, num_points)), dtype=bool\n        )\n    else:", "    if num_points % 2 == 1:\n        # on an odd grid the largest stored wavenumber is (N-1)//2: the inclusive low-pass keeps everything\n        return low_pass_filter_mask(\n            num_spatial_dims, num_points, cutoff=(num_points - 1) // 2, axis_separate=True\n        )\n    else:", "oddball mask of an odd grid as an all-pass low-pass filter")
ben("c04-modes-slices-product-repeat", "C04", "_spectral.py", "    slices_ = [[slice(None, nyquist_mode + 1)]]\n    # All other axes have both positive and negative wavenumbers\n    slices_ += [[left_slice, right_slice] for _ in range(num_spatial_dims - 1)]\n    all_modes_slices = [\n        [\n            slice(None),\n        ]\n        + list(reversed(p))\n        for p in product(*slices_)\n    ]", "    rfft_slice = slice(None, nyquist_mode + 1)\n    all_modes_slices = [\n        [slice(None), *block[::-1], rfft_slice]\n        for block in product((left_slice, right_slice), repeat=num_spatial_dims - 1)\n    ]", "blocks enumerated with product(repeat=D-1)")

# ------------------------------------------------------------------------------------------ seeded wave 8: exact limits at a zero symbol
ben("c02-etdrk1-exact-limit-at-zero", "C02", "etdrk/_etdrk_1.py", "        self._coef_1 = dt * mean_c1\n", "        self._coef_1 = jnp.where(L_dt == 0, dt, dt * mean_c1)\n", "phi_1(0) = 1: the exact value instead of the contour mean where the symbol vanishes")
mut("c02-etdrk1-wrong-limit-at-zero", "C02", "etdrk/_etdrk_1.py", "        self._coef_1 = dt * mean_c1\n", "        self._coef_1 = jnp.where(L_dt == 0, dt / 2, dt * mean_c1)\n", "wrong limit at a zero symbol (cf. seeded S79)")
