"""Reference formulas for the ETDRK integrators.

Sources: Cox & Matthews, "Exponential time differencing for stiff systems", JCP 2002, eqs. (4) ETD1,
(22) ETD2RK, (23)-(25) ETD3RK, (26)-(29) ETD4RK; Kassam & Trefethen, SIAM J. Sci. Comput. 2005 for the
contour-mean evaluation; transcribed in the class docstrings of exponax/etdrk/_etdrk_{1..4}.py and
docs/api/etdrk_backbone.md.  z = dt*lambda, every coefficient is dt * f(z).

`validate()` checks this table against the phi-function definitions and the classical order
conditions with exact power series, so a typo here is caught by the table's own check.
"""

from fractions import Fraction as Fr

from vf import alg
from vf.alg import Poly, as_poly
from vf import symops as SO

# ---------------------------------------------------------------------------------------------
# closed forms f(z, e^z, e^{z/2}) as python functions over any ring that has + - * / and numbers


def f_phi1(z, ez, ezh):
    return (ez - 1) / z


def f_phi1_half(z, ez, ezh):
    return (ezh - 1) / z


def f_phi2(z, ez, ezh):
    return (ez - 1 - z) / z**2


def f_a(z, ez, ezh):  # CM (25)/(29) weight of N(u_n)
    return (-4 - z + ez * (4 - 3 * z + z**2)) / z**3


def f_b2(z, ez, ezh):  # CM (29) weight of N(a)+N(b):  2*f_b2
    return (2 + z + ez * (-2 + z)) / z**3


def f_b4(z, ez, ezh):  # CM (25) weight of N(a): 4*(...)
    return 4 * (2 + z + ez * (-2 + z)) / z**3


def f_c(z, ez, ezh):  # CM (25)/(29) weight of the last stage
    return (-4 - 3 * z - z**2 + ez * (4 - z)) / z**3


# field name -> closed form, per integrator class
COEFFICIENTS = {
    "ETDRK1": {"_coef_1": f_phi1},
    "ETDRK2": {"_coef_1": f_phi1, "_coef_2": f_phi2},
    "ETDRK3": {"_coef_1": f_phi1_half, "_coef_2": f_phi1, "_coef_3": f_a, "_coef_4": f_b4, "_coef_5": f_c},
    "ETDRK4": {"_coef_1": f_phi1_half, "_coef_2": f_phi1_half, "_coef_3": f_phi1_half, "_coef_4": f_a, "_coef_5": f_b2, "_coef_6": f_c},
}
EXP_FIELDS = {
    "ETDRK0": {"_exp_term": 1},
    "ETDRK1": {"_exp_term": 1},
    "ETDRK2": {"_exp_term": 1},
    "ETDRK3": {"_exp_term": 1, "_half_exp_term": Fr(1, 2)},
    "ETDRK4": {"_exp_term": 1, "_half_exp_term": Fr(1, 2)},
}


def stages(order, u, E, Eh, c, Nl):
    """the update in terms of the stored fields c[i] = field _coef_i; Nl is the nonlinear term"""
    if order == 0:
        return E * u
    if order == 1:
        return E * u + c[1] * Nl(u)
    if order == 2:
        Nu = Nl(u)
        a = E * u + c[1] * Nu
        return a + c[2] * (Nl(a) - Nu)
    if order == 3:
        Nu = Nl(u)
        a = Eh * u + c[1] * Nu
        Na = Nl(a)
        b = E * u + c[2] * (2 * Na - Nu)
        return E * u + c[3] * Nu + c[4] * Na + c[5] * Nl(b)
    if order == 4:
        Nu = Nl(u)
        a = Eh * u + c[1] * Nu
        Na = Nl(a)
        b = Eh * u + c[2] * Na
        Nb = Nl(b)
        cc = Eh * a + c[3] * (2 * Nb - Nu)
        return E * u + c[4] * Nu + c[5] * 2 * (Na + Nb) + c[6] * Nl(cc)
    raise ValueError(order)


# ---------------------------------------------------------------------------------------------
# contour mean in the algebra of the checker

BOUND = ("idx", "j")


def root_of_unity_rep(Mp):
    """representative of exp(2 pi i (j - 1/2)/M), j = 1..M, written with the 0-based bound index"""
    j0 = Poly.atom(BOUND)
    return alg.exp(2 * alg.I * alg.PI * (j0 + 1 - Fr(1, 2)) / Mp)


def contour_coefficient(f, lam_dt, dt, Mp, r):
    rho = root_of_unity_rep(Mp)
    lr = r * rho + lam_dt
    val = f(lr, alg.exp(lr), alg.exp(lr / 2))
    return dt * (SO.bound_sum(as_poly(val), BOUND, Mp) / Mp)


# ---------------------------------------------------------------------------------------------
# self validation with exact truncated power series


class Ser:
    """truncated bivariate power series in (z, w) with rational coefficients (total degree <= DEG)"""

    DEG = 12

    def __init__(self, d=None):
        self.d = {k: v for k, v in (d or {}).items() if v != 0 and k[0] + k[1] <= Ser.DEG}

    @staticmethod
    def const(c):
        return Ser({(0, 0): Fr(c)})

    @staticmethod
    def z():
        return Ser({(1, 0): Fr(1)})

    @staticmethod
    def w():
        return Ser({(0, 1): Fr(1)})

    def _c(self, o):
        return o if isinstance(o, Ser) else Ser.const(o)

    def __add__(self, o):
        o = self._c(o)
        d = dict(self.d)
        for k, v in o.d.items():
            d[k] = d.get(k, 0) + v
        return Ser(d)

    __radd__ = __add__

    def __neg__(self):
        return Ser({k: -v for k, v in self.d.items()})

    def __sub__(self, o):
        return self + (-self._c(o))

    def __rsub__(self, o):
        return self._c(o) + (-self)

    def __mul__(self, o):
        o = self._c(o)
        d = {}
        for (a, b), v in self.d.items():
            for (c, e), x in o.d.items():
                if a + b + c + e <= Ser.DEG:
                    d[(a + c, b + e)] = d.get((a + c, b + e), 0) + v * x
        return Ser(d)

    __rmul__ = __mul__

    def __pow__(self, n):
        r = Ser.const(1)
        for _ in range(n):
            r = r * self
        return r

    def div_zpow(self, n):
        for (a, b) in self.d:
            if a < n:
                raise ZeroDivisionError("series not divisible by z^%d" % n)
        return Ser({(a - n, b): v for (a, b), v in self.d.items()})

    def __truediv__(self, o):
        # only division by z^n (the closed forms) is needed
        o = self._c(o)
        if len(o.d) == 1:
            ((k, v),) = o.d.items()
            if k[1] == 0:
                return Ser({kk: x / v for kk, x in self.div_zpow(k[0]).d.items()})
        raise ZeroDivisionError("general series division not needed")

    def low(self, deg):
        return {k: v for k, v in self.d.items() if k[0] + k[1] <= deg}


def _exp_series(arg):
    r = Ser.const(1)
    term = Ser.const(1)
    for n in range(1, Ser.DEG + 2):
        term = term * arg * Fr(1, n)
        r = r + term
    return r


def validate():
    """returns list of (name, ok, detail)"""
    out = []
    # closed forms need z-series with extra head room for the division by z^3
    old = Ser.DEG
    Ser.DEG = old + 4
    try:
        z, w = Ser.z(), Ser.w()
        ez = _exp_series(z)
        ezh = _exp_series(z * Fr(1, 2))
        fact = [1]
        for n in range(1, 30):
            fact.append(fact[-1] * n)

        def phi(k):
            # phi_k(z) = sum_n z^n/(n+k)!
            return Ser({(n, 0): Fr(1, fact[n + k]) for n in range(Ser.DEG + 1)})

        p1, p2, p3 = phi(1), phi(2), phi(3)
        p1h = Ser({(n, 0): Fr(1, fact[n + 1]) * Fr(1, 2**n) for n in range(Ser.DEG + 1)})  # phi1(z/2)
        chk = lambda name, a, b: out.append((name, a.low(old) == b.low(old), ""))
        chk("f_phi1 == phi1", f_phi1(z, ez, ezh), p1)
        chk("f_phi1_half == phi1(z/2)/2", f_phi1_half(z, ez, ezh), p1h * Fr(1, 2))
        chk("f_phi2 == phi2", f_phi2(z, ez, ezh), p2)
        chk("f_a == phi1 - 3 phi2 + 4 phi3", f_a(z, ez, ezh), p1 - 3 * p2 + 4 * p3)
        chk("f_b2 == phi2 - 2 phi3", f_b2(z, ez, ezh), p2 - 2 * p3)
        chk("f_b4 == 4 phi2 - 8 phi3", f_b4(z, ez, ezh), 4 * p2 - 8 * p3)
        chk("f_c == 4 phi3 - phi2", f_c(z, ez, ezh), 4 * p3 - p2)
        chk("ETDRK3 weights telescope: f_a + f_b4 + f_c == phi1", f_a(z, ez, ezh) + f_b4(z, ez, ezh) + f_c(z, ez, ezh), p1)
        chk("ETDRK4 weights telescope: f_a + 4 f_b2 + f_c == phi1", f_a(z, ez, ezh) + 4 * f_b2(z, ez, ezh) + f_c(z, ez, ezh), p1)
        # order conditions on u' = lambda u + mu u : exact multiplier exp(z + w)
        exact = _exp_series(z + w)
        for order in (1, 2, 3, 4):
            cl = COEFFICIENTS[f"ETDRK{order}"]
            c = {int(k.split("_")[-1]): f(z, ez, ezh) for k, f in cl.items()}  # coefficient / dt
            Nl = lambda v: w * v  # dt * N(v) = w v
            upd = stages(order, Ser.const(1), ez, ezh, c, Nl)
            diff = upd - exact
            lowest = min((k[0] + k[1] for k in diff.low(old)), default=None)
            out.append((f"ETDRK{order} local error starts at total degree {lowest} (needs >= {order + 1})", lowest is None or lowest >= order + 1, ""))
            # sharpness: a scheme of order p must not accidentally have order p+1 here (guards a vacuous test)
            out.append((f"ETDRK{order} local error is not identically zero", lowest is not None, ""))
    finally:
        Ser.DEG = old
    return out
