"""Documented nonlinear operators in pseudo-spectral form.

Every physical-space factor is Id[.] = ifft(mask * .) and every product returns through
Fd[.] = mask * fft(.), with mask = { |k_a| <= f*(N//2) - 1 for every axis a }
(exponax/nonlin_fun/_base.py docstring: "dealiasing mask ... applied before ifft and after fft").

Sources (class docstrings):
  ConvectionNonlinearFun      N(u) = -b (u . grad) u            | -b 1/2 div(u (x) u)  (conservative)
                              single channel: -b u (1 . grad) u | -b 1/2 (1 . grad)(u^2)
  GradientNormNonlinearFun    N(u) = -b 1/2 ||grad u||^2  (mean removed when zero_mode_fix)
  PolynomialNonlinearFun      N(u) = sum_i c_i u^i
  GeneralNonlinearFun         N(u) = b0 u^2 + b1 1/2 (1 . grad)(u^2) + b2 1/2 ||grad u||^2   ("no minus")
  VorticityConvection2d       N(w) = -b (u w_x + v w_y),  psi = Laplace^-1 w, u = psi_y, v = -psi_x
                              (code comments; the compact docstring formula does not pin the pairing)
  ProjectedConvection3d       N(u) = P( u x (curl u) )   right-handed cross product, P = Leray projection
  Leray                       P(u) = u - grad Laplace^-1 div u, mean mode untouched
  CahnHilliardNonlinearFun    N(u) = scale * Laplace(u^3)           (stepper: scale = nu * c3)
  GrayScottNonlinearFun       N(u,v) = ( f (1-u) - u v^2 , -(f+k) v + u v^2 )
  BelousovZhabotinskyNonlinearFun N = ( u0 + u1 - u0 u1 - u0^2 , u2 - u1 - u0 u1 , u0 - u2 )
"""
from fractions import Fraction as Fr

from vf import alg
from vf import symops as SO
from vf.alg import Poly, as_poly
from . import common as C


class Ctx:
    def __init__(self, D, parity, fraction, L=C.L, N=C.N):
        self.D = D
        self.parity = parity
        self.N = N
        self.Dv = C.deriv(D, L)
        self.mask = Poly.const(1) if fraction is None else C.dealias_mask(D, fraction, parity, N)
        self.grid = (N,) * D

    def Id(self, x):
        return C.ifft(self.mask * as_poly(x), self.D)

    def I(self, x):
        return C.ifft(as_poly(x), self.D)

    def Fd(self, p):
        return self.mask * C.fft(as_poly(p), self.D)

    def mean(self, p):
        return SO.sym_mean(as_poly(p), self.grid)


def convection(cx, u, b, single_channel, conservative):
    D = cx.D
    Dv = cx.Dv
    if single_channel:
        if len(u) != 1:
            raise ValueError("single channel")
        u0 = cx.Id(u[0])
        if conservative:
            return [-b * Fr(1, 2) * sum(Dv, Poly()) * cx.Fd(u0 * u0)]
        return [-b * cx.Fd(sum((u0 * cx.Id(Dv[j] * u[0]) for j in range(D)), Poly()))]
    if len(u) != D:
        raise ValueError("multi channel needs C == D")
    up = [cx.Id(x) for x in u]
    out = []
    for c in range(D):
        if conservative:
            out.append(-b * Fr(1, 2) * sum((Dv[j] * cx.Fd(up[j] * up[c]) for j in range(D)), Poly()))
        else:
            out.append(-b * cx.Fd(sum((up[j] * cx.Id(Dv[j] * u[c]) for j in range(D)), Poly())))
    return out


def gradient_norm(cx, u, b, zero_mode_fix):
    out = []
    for c in range(len(u)):
        G = sum((cx.Id(cx.Dv[j] * u[c]) ** 2 for j in range(cx.D)), Poly())
        if zero_mode_fix:
            G = G - cx.mean(G)
        out.append(-b * Fr(1, 2) * cx.Fd(G))
    return out


def polynomial(cx, u, coefficients):
    out = []
    for c in range(len(u)):
        up = cx.Id(u[c])
        p = sum((as_poly(a) * up**i for i, a in enumerate(coefficients)), Poly())
        out.append(cx.Fd(p))
    return out


def general_nonlinear(cx, u, b0, b1, b2, zero_mode_fix=True):
    u0 = cx.Id(u[0])
    sq = cx.Fd(b0 * u0 * u0)
    conv = b1 * Fr(1, 2) * sum(cx.Dv, Poly()) * cx.Fd(u0 * u0)
    G = sum((cx.Id(cx.Dv[j] * u[0]) ** 2 for j in range(cx.D)), Poly())
    if zero_mode_fix:
        G = G - cx.mean(G)
    return [sq + conv + b2 * Fr(1, 2) * cx.Fd(G)]


def inv_laplace_times(cx, x):
    """multiplier Laplace^-1 (any finite value at the mean mode: it is always multiplied by a derivative)"""
    lap = sum((d * d for d in cx.Dv), Poly())
    return x / lap


def vorticity_convection(cx, w, b):
    D0, D1 = cx.Dv
    psi = inv_laplace_times(cx, w[0])
    u = cx.Id(D1 * psi)
    v = cx.Id(-D0 * psi)
    return [-b * cx.Fd(u * cx.Id(D0 * w[0]) + v * cx.Id(D1 * w[0]))]


def cross(a, b):
    return [a[1] * b[2] - a[2] * b[1], a[2] * b[0] - a[0] * b[2], a[0] * b[1] - a[1] * b[0]]


def leray(cx, u):
    """P(u) = u - grad Laplace^-1 div u ; mean mode untouched (world-resolved by the caller)"""
    div = sum((cx.Dv[j] * u[j] for j in range(cx.D)), Poly())
    lap = sum((d * d for d in cx.Dv), Poly())
    return [u[j] - cx.Dv[j] * div / lap for j in range(cx.D)]


def projected_convection(cx, u):
    curl_hat = cross(cx.Dv, u)
    curl = [cx.Id(x) for x in curl_hat]
    vel = [cx.Id(x) for x in u]
    conv = [cx.Fd(x) for x in cross(vel, curl)]
    return leray(cx, conv)


def cahn_hilliard(cx, u, scale):
    lap = sum((d * d for d in cx.Dv), Poly())
    return [scale * lap * cx.Fd(cx.Id(u[0]) ** 3)]


def gray_scott(cx, u, f, k):
    a, b = cx.Id(u[0]), cx.Id(u[1])
    return [cx.Fd(f * (1 - a) - a * b * b), cx.Fd(-(f + k) * b + a * b * b)]


def belousov_zhabotinsky(cx, u):
    a, b, c = (cx.Id(x) for x in u)
    return [cx.Fd(a + b - a * b - a * a), cx.Fd(c - b - a * b), cx.Fd(a - c)]


def degree_in_state(p):
    """largest number of state-dependent physical factors multiplied inside any forward transform"""
    best = 0
    for a in p.all_atoms():
        if a[0] == "F":
            for m in a[1].t:
                d = sum(e for b, e in m if b[0] in ("I", "Idc") and isinstance(e, int))
                best = max(best, d)
    return best
