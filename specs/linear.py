"""Documented Fourier symbols of the linear steppers.

Sources: class docstrings of exponax/stepper/_advection.py (u_t + c . grad u = 0),
_diffusion.py (u_t = div(A grad u)), _advection_diffusion.py, _dispersion.py
(u_t = xi . (grad o grad o grad) u, or  (xi . grad)(Laplace u) with spatial mixing),
_hyper_diffusion.py (u_t = -mu (grad^4 . 1) u, or -mu Laplace^2 u with mixing),
_wave.py (h_tt = c^2 Laplace h written as first-order system in (h, v=h_t)),
generic/_linear.py (u_t = sum_j a_j sum_d d^j/dx_d^j u) and docs/api/stepper/overview.md.
"""
from fractions import Fraction as Fr

from vf import alg
from vf.alg import Poly, as_poly, I, PI
from . import common as C


def _vec(v, D):
    """scalar -> isotropic vector ; list stays"""
    if isinstance(v, (list, tuple)):
        return list(v)
    return [v] * D


def _mat(A, D):
    if isinstance(A, (list, tuple)) and A and isinstance(A[0], (list, tuple)):
        return [list(r) for r in A]
    v = _vec(A, D)
    return [[v[i] if i == j else Poly() for j in range(D)] for i in range(D)]


def advection(Dv, velocity):
    c = _vec(velocity, len(Dv))
    return -sum((c[j] * Dv[j] for j in range(len(Dv))), Poly())


def diffusion(Dv, diffusivity):
    D = len(Dv)
    A = _mat(diffusivity, D)
    return sum((A[i][j] * Dv[i] * Dv[j] for i in range(D) for j in range(D)), Poly())


def advection_diffusion(Dv, velocity, diffusivity):
    return advection(Dv, velocity) + diffusion(Dv, diffusivity)


def dispersion(Dv, dispersivity, advect_on_diffusion):
    D = len(Dv)
    xi = _vec(dispersivity, D)
    if advect_on_diffusion:
        return sum((xi[j] * Dv[j] for j in range(D)), Poly()) * sum((d**2 for d in Dv), Poly())
    return sum((xi[j] * Dv[j] ** 3 for j in range(D)), Poly())


def hyper_diffusion(Dv, mu, diffuse_on_diffuse):
    if diffuse_on_diffuse:
        return -mu * sum((d**2 for d in Dv), Poly()) ** 2
    return -mu * sum((d**4 for d in Dv), Poly())


def general_linear(Dv, coefficients):
    out = Poly()
    for j, a in enumerate(coefficients):
        out = out + as_poly(a) * sum((d**j for d in Dv), Poly())
    return out


def difficulty_to_normalized(gammas, D, N):
    """docs of DifficultyLinearStepper: alpha_0 = gamma_0, alpha_j = gamma_j / (N^j * 2^(j-1) * D)"""
    out = []
    for j, g in enumerate(gammas):
        if j == 0:
            out.append(as_poly(g))
        else:
            out.append(as_poly(g) / (as_poly(N) ** j * Fr(2) ** (j - 1) * D))
    return out


def wave_step(D, c, dt, L, h, v, world):
    """exact solution operator of h_tt = c^2 Laplace h per Fourier mode (docstring of Wave):
    omega = c |kappa| ;  h' = h cos(omega dt) + v sin(omega dt)/omega ;  v' = -omega h sin(omega dt) + v cos(omega dt);
    mean mode: h' = h + dt v, v' = v"""
    if world == "dc":
        return h + dt * v, v
    kappa = alg.sqrt(sum(((2 * PI / L * k) ** 2 for k in C.kvec(D)), Poly()))
    om = c * kappa
    X = alg.exp(I * om * dt)
    Xi = X.inverse()
    cos = (X + Xi) / 2
    sin = (X - Xi) / (2 * I)
    return h * cos + v * sin / om, -om * h * sin + v * cos
