"""Shared vocabulary of the reference formulas: wavenumbers, derivative symbols, masks, transforms.

Conventions (exponax/_spectral.py docstrings): a state has shape (C, N, ..., N); its spectrum is
rfftn over the D trailing axes, shape (C, N, ..., N//2+1): all leading spatial axes carry the full
`fftfreq` wavenumbers, the last axis the halved `rfftfreq` ones; derivative symbol D_j = i*2*pi*k_j/L.
"""
from fractions import Fraction as Fr

from vf import alg
from vf.alg import Poly, as_poly, PI, I
from vf import symops as SO

N = Poly.sym("N")
L = Poly.sym("L")
DT = Poly.sym("dt")


def kvec(D):
    return [Poly.atom(("k", j, D, "half" if j == D - 1 else "full")) for j in range(D)]


def deriv(D, L_=L):
    return [I * 2 * PI / L_ * k for k in kvec(D)]


def laplace(D, L_=L, order=2):
    return sum((d**order for d in deriv(D, L_)), Poly())


def H_of(parity, N_=N):
    return (N_ - parity) / 2 + 1


def lowpass(D, cutoff):
    m = Poly.const(1)
    for k in kvec(D):
        m = m * alg.ind("le", alg.absval(k), as_poly(cutoff))
    return m


def dealias_cutoff(fraction, parity, N_=N):
    """documented: keep |k| <= fraction * (N//2) - 1"""
    return as_poly(fraction) * ((N_ - parity) / 2) - 1


def dealias_mask(D, fraction, parity, N_=N):
    return lowpass(D, dealias_cutoff(fraction, parity, N_))


def ifft(p, D):
    return SO.inverse_entry(as_poly(p), D)


def fft(p, D):
    return SO.forward_entry(as_poly(p), D)


def uhat(c, name="u"):
    return Poly.atom(("u", name, c, "F"))


def uphys(c, name="u"):
    return Poly.atom(("u", name, c, "P"))


# documented per-axis values of the scaling arrays (build_scaling_array docstring):
# (mean mode, interior mode, Nyquist mode [even N only]) as multiples of N; "last" = halved rfft axis
SCALING_TABLE = {
    "norm_compensation": {"last": (1, 1, 1), "other": (1, 1, 1)},
    "reconstruction": {"last": (1, Fr(1, 2), 1), "other": (1, 1, 1)},
    "coef_extraction": {"last": (1, Fr(1, 2), 1), "other": (1, Fr(1, 2), 1)},
}


def scaling(D, mode, parity, N_=N):
    """the scaling array as a polynomial in the per-axis indicators 1{k_a = 0} and (even N) 1{|k_a| = N/2}"""
    out = Poly.const(1)
    for a, k in enumerate(kvec(D)):
        role = "last" if a == D - 1 else "other"
        dc, interior, nyq = SCALING_TABLE[mode][role]
        chi0 = alg.ind("eq", k, 0)
        f = chi0 * dc + (1 - chi0) * interior
        if parity == 0:
            nyq_k = N_ / 2 if a == D - 1 else -N_ / 2
            chin = alg.ind("eq", k, nyq_k)
            f = chin * nyq + (1 - chin) * f
        out = out * (N_ * f)
    return out
