"""Shared vocabulary of the reference formulas: wavenumbers, derivative symbols, masks, transforms.

Conventions (exponax/_spectral.py docstrings): a state has shape (C, N, ..., N); its spectrum is
rfftn over the D trailing axes, shape (C, N, ..., N//2+1): all leading spatial axes carry the full
`fftfreq` wavenumbers, the last axis the halved `rfftfreq` ones; derivative symbol D_j = i*2*pi*k_j/L.
"""
from fractions import Fraction as Fr

from vf import alg
from vf.alg import Poly, as_poly, PI, I
from vf import symops as SO

N = Poly.sym("N")
L = Poly.sym("L")
DT = Poly.sym("dt")


def kvec(D):
    return [Poly.atom(("k", j, D, "half" if j == D - 1 else "full")) for j in range(D)]


def deriv(D, L_=L):
    return [I * 2 * PI / L_ * k for k in kvec(D)]


def laplace(D, L_=L, order=2):
    return sum((d**order for d in deriv(D, L_)), Poly())


def H_of(parity, N_=N):
    return (N_ - parity) / 2 + 1


def lowpass(D, cutoff):
    m = Poly.const(1)
    for k in kvec(D):
        m = m * alg.ind("le", alg.absval(k), as_poly(cutoff))
    return m


def dealias_cutoff(fraction, parity, N_=N):
    """documented: keep |k| <= fraction * (N//2) - 1"""
    return as_poly(fraction) * ((N_ - parity) / 2) - 1


def dealias_mask(D, fraction, parity, N_=N):
    return lowpass(D, dealias_cutoff(fraction, parity, N_))


def ifft(p, D):
    return SO.inverse_entry(as_poly(p), D)


def fft(p, D):
    return SO.forward_entry(as_poly(p), D)


def uhat(c, name="u"):
    return Poly.atom(("u", name, c, "F"))


def uphys(c, name="u"):
    return Poly.atom(("u", name, c, "P"))
