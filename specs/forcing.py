"""rfft-layout spectrum of a real single-mode field (used for the Kolmogorov forcings).

numpy conventions (documented in exponax.spectral.get_fourier_coefficients "Interpretation Guide" and
build_scaling_array): the unnormalised rfftn of the real field
        A * cos(m * (2 pi / L) * x_axis + phi)          0 < m < N/2
on an N^D grid is   (A/2) e^{+i phi} N^D  at wavenumber +m of `axis` (all other wavenumbers 0) and
(A/2) e^{-i phi} N^D at -m; the halved last axis stores only +m.  sin(t) = cos(t - pi/2).
"""
from fractions import Fraction as Fr

from vf import alg
from vf.alg import Poly, as_poly, I


def single_mode_spectrum(D, axis, m, amplitude, kind, N):
    """{ +1 / -1 (sign of the stored wavenumber on `axis`) : coefficient } for A*cos or A*sin"""
    half = axis == D - 1
    A = as_poly(amplitude)
    ND = as_poly(N) ** D
    if kind == "cos":
        plus, minus = A / 2 * ND, A / 2 * ND
    elif kind == "sin":
        plus, minus = A / 2 * ND * (-I), A / 2 * ND * I
    else:
        raise ValueError(kind)
    out = {+1: plus}
    if not half:
        out[-1] = minus
    return out
