import jax, jax.numpy as jnp, numpy as np
jax.config.update("jax_enable_x64", True)
import exponax as ex
L=3.0; N=12
for D in (1,2,3):
  for indexing in ("ij","xy"):
    grid=ex.make_grid(D,L,N,indexing=indexing)
    # u = sin(2 pi x0/L) * cos(4 pi x1 /L) (...)
    u=jnp.sin(2*jnp.pi*grid[0]/L)
    du0=2*jnp.pi/L*jnp.cos(2*jnp.pi*grid[0]/L)
    if D>1:
        u=u*jnp.cos(4*jnp.pi*grid[1]/L); du0=du0*jnp.cos(4*jnp.pi*grid[1]/L)
    u=u[None]
    try:
        d=ex.derivative(u,L,indexing=indexing)
        print(D,indexing,'max err d/dx0', float(jnp.abs(d[0]-du0).max()))
        c=ex.spectral.get_fourier_coefficients(u,indexing=indexing)
        fi=ex.FourierInterpolator(u,domain_extent=L,indexing=indexing)
        pt=grid[(slice(None),)+(1,)*D]
        print('   interp err', float(jnp.abs(fi(pt)[0]-u[(0,)+(1,)*D])))
    except Exception as e:
        print(D,indexing,'ERROR',type(e).__name__, str(e)[:100])
