import jax, jax.numpy as jnp, numpy as np, sys
jax.config.update("jax_enable_x64", True)
import exponax as ex
from exponax.etdrk import ETDRK1, ETDRK4
from exponax.nonlin_fun import ZeroNonlinearFun
z=jnp.array([[0.5j, -1.0+2j, -3.0]])
nf=ZeroNonlinearFun(1,4)
c=ETDRK1(1.0, z, nf, num_circle_points=64)._coef_1
exact=(np.exp(np.array(z))-1)/np.array(z)
print(np.array(c)); print(exact)
print('max err', np.abs(np.array(c)-exact).max())
# convergence order of KdV (complex symbol) with ETDRK2: error ratio when halving dt
def run(dt, order):
    st=ex.stepper.KortewegDeVries(1, 20.0, 64, dt, order=order, hyper_diffusivity=0.0, dispersivity=1.0, convection_scale=-6.0, single_channel=True)
    x=ex.make_grid(1,20.0,64)
    u=0.5*2/jnp.cosh(jnp.sqrt(2.0)/2*(x-10.0))**2*0.5
    n=int(round(0.1/dt))
    return ex.repeat(st,n)(u)
ref=run(0.1/512,4)
for order in (1,2,3,4):
    e1=float(jnp.abs(run(0.1/8,order)-ref).max()); e2=float(jnp.abs(run(0.1/16,order)-ref).max())
    print(order, e1, e2, 'observed order %.2f'%np.log2(e1/e2))
