import jax, jax.numpy as jnp
import exponax as ex
k=jax.random.PRNGKey(0)
for D in (1,2,3):
    g=ex.ic.RandomTruncatedFourierSeries(D, offset_range=(2.0,2.0))
    u=g(16,key=k)
    print('RTFS D=%d offset 2.0 -> mean %.5f shape %s'%(D,float(u.mean()),u.shape))
    g=ex.ic.RandomDiscontinuities(D)
    u=g(16,key=k)
    print('RandomDiscontinuities D=%d -> shape %s'%(D,u.shape))
