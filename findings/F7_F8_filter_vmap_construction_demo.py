import jax, jax.numpy as jnp, equinox as eqx
import exponax as ex
u=jnp.sin(2*jnp.pi*ex.make_grid(1,1.0,16))
def probe(name, make, vals):
    loop=jnp.stack([make(v)(u) for v in vals])
    try:
        st=eqx.filter_vmap(make)(jnp.array(vals))
        out=eqx.filter_vmap(lambda s: s(u))(st)
        print(name,'filter_vmap ok, max diff to loop', float(jnp.abs(out-loop).max()))
    except Exception as e:
        print(name,'filter_vmap FAILS:',type(e).__name__,str(e).replace('\n',' ')[:100])
probe('Advection', lambda c: ex.stepper.Advection(1,1.0,16,0.1,velocity=c), [0.5,1.0])
probe('Diffusion', lambda c: ex.stepper.Diffusion(1,1.0,16,0.1,diffusivity=c), [0.01,0.02])
probe('AdvectionDiffusion', lambda c: ex.stepper.AdvectionDiffusion(1,1.0,16,0.1,velocity=c,diffusivity=c), [0.01,0.02])
probe('Dispersion', lambda c: ex.stepper.Dispersion(1,1.0,16,0.1,dispersivity=c), [0.01,0.02])
probe('Burgers (reference, no dispatch)', lambda c: ex.stepper.Burgers(1,1.0,16,0.1,diffusivity=c), [0.01,0.02])
u2=jnp.sin(2*jnp.pi*ex.make_grid(2,1.0,16)[0:1])
def probe2(name, make, vals):
    loop=jnp.stack([make(v)(u2) for v in vals])
    try:
        st=eqx.filter_vmap(make)(jnp.array(vals))
        out=eqx.filter_vmap(lambda s: s(u2))(st)
        print(name,'filter_vmap ok, max diff to loop', float(jnp.abs(out-loop).max()))
    except Exception as e:
        print(name,'filter_vmap FAILS:',type(e).__name__,str(e).replace('\n',' ')[:100])
probe2('GeneralVorticityConvectionStepper(injection_scale=traced)', lambda c: ex.stepper.generic.GeneralVorticityConvectionStepper(2,1.0,16,0.01,injection_scale=c), [0.5,1.0])
