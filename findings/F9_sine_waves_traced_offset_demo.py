import jax, jax.numpy as jnp
import exponax as ex
g=ex.ic.RandomSineWaves1d(1)
k=jax.random.PRNGKey(0)
# naive loop works
loop=jnp.stack([g(16,key=kk) for kk in jax.random.split(k,3)])
print('python loop ok', loop.shape)
try:
    s=ex.build_ic_set(g,num_points=16,num_samples=3,key=k)
    print('build_ic_set ok', s.shape)
except Exception as e:
    print('build_ic_set FAILS:', type(e).__name__, str(e)[:120].replace('\n',' '))
try:
    s=jax.jit(lambda kk: g(16,key=kk))(k); print('jit ok', s.shape)
except Exception as e:
    print('jit FAILS:', type(e).__name__)
