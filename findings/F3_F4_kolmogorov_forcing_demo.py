import jax, jax.numpy as jnp, numpy as np
jax.config.update("jax_enable_x64", True)
import exponax as ex
# laminar test: start from rest, tiny dt, one step: u ~ dt * f
for L in (2*np.pi, 3.0):
    N=16; k=2; gam=0.7; dt=1e-6
    st=ex.stepper.KolmogorovFlowVorticity(2,L,N,dt,diffusivity=0.0,drag=0.0,injection_mode=k,injection_scale=gam,order=1)
    u=st(jnp.zeros((1,N,N)))/dt
    x=ex.make_grid(2,L,N)
    doc=-k*(2*np.pi/L)*gam*jnp.cos(k*(2*np.pi/L)*x[1:2])
    print('2D L=%.3f max|u/dt - f_doc| = %.3e  (max|f_doc|=%.3f)'%(L,float(jnp.abs(u-doc).max()),float(jnp.abs(doc).max())))
    N=12
    st=ex.stepper.KolmogorovFlowVelocity(3,L,N,dt,diffusivity=0.0,drag=0.0,injection_mode=k,injection_scale=gam,order=1)
    u=st(jnp.zeros((3,N,N,N)))/dt
    x=ex.make_grid(3,L,N)
    doc=jnp.concatenate([gam*jnp.sin(k*(2*np.pi/L)*x[1:2]),0*x[1:2],0*x[1:2]])
    print('3D L=%.3f max|u/dt - f_doc| = %.3e  (max|f_doc|=%.3f)'%(L,float(jnp.abs(u-doc).max()),float(jnp.abs(doc).max())))
