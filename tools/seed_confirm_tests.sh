#!/bin/bash
# usage: seed_confirm_tests.sh <seed-dir-name>
# my own confirmation that a seeded change keeps the pinned test-suite green: fresh scratch worktree of /repo HEAD
# (outside /repo and /verif), apply the seeded patch, run the baseline pytest command there, record the result
# in /verif/seeded/<id>/tests_confirmed.json, remove the worktree.
set -u
id=$1
DST=/verif/${SEED_BASE:-seeded}/$id
WT=/tmp/seedconf/wt_$id
mkdir -p /tmp/seedconf
git -C /repo worktree add -q --detach $WT HEAD || exit 3
cd $WT
git apply $DST/patch.diff || { echo "patch does not apply"; git -C /repo worktree remove --force $WT; exit 3; }
/venv/bin/python -m pytest -q -p no:cacheprovider -n ${SEED_JOBS:-5} --timeout=900 tests > /tmp/seedconf/$id.log 2>&1
rc=$?
summary=$(tail -n 1 /tmp/seedconf/$id.log)
failed=$(grep -E "^(FAILED|ERROR) " /tmp/seedconf/$id.log | awk '{print $2}' | sort -u | tr '\n' ' ')
/venv/bin/python - "$DST" "$rc" "$summary" "$failed" <<'EOF'
import json, sys
dst, rc, summary, failed = sys.argv[1:5]
failed = failed.split()
pre = "tests/test_nonlinear_funs.py::TestGradientNormAdditional::test_2d"
json.dump({
    "command": "cd <scratch worktree with patch.diff applied> && /venv/bin/python -m pytest -q -p no:cacheprovider -n 5 --timeout=900 tests",
    "pytest_exit": int(rc), "summary_line": summary, "failed": failed,
    "only_preexisting_failure": all(f == pre for f in failed),
    "note": pre + " fails on the unmodified tree as well and is not in the baseline's stable_pass list",
}, open(dst + "/tests_confirmed.json", "w"), indent=1)
print(dst, summary, failed)
EOF
cd /
git -C /repo worktree remove --force $WT
rm -f /tmp/seedconf/$id.log
