#!/venv/bin/python
"""Which statements of /repo/exponax does the abstract interpreter actually walk, summed over all checks?

    tools/coverage.py [--tier thorough] [-v]

Runs every check with VF_COVERAGE set (the interpreter then logs file:line of every statement it executes),
and prints, per function of the package, the statements never interpreted by any check.  This is an audit aid
(blind spots = code no formula check can say anything about); it is not a registered check.
"""
import ast
import os
import subprocess
import sys
import tempfile
from concurrent.futures import ThreadPoolExecutor

HERE = os.path.dirname(os.path.dirname(os.path.abspath(__file__)))
REPO = os.environ.get("VF_REPO", "/repo")


def main():
    tier = "thorough" if "--tier" in sys.argv and sys.argv[sys.argv.index("--tier") + 1] == "thorough" else "quick"
    verbose = "-v" in sys.argv
    tmp = tempfile.mkdtemp(prefix="vf_cov_")
    props = [f"C{i:02d}" for i in range(1, 21)]

    def run(p):
        f = os.path.join(tmp, p + ".txt")
        env = dict(os.environ, VF_COVERAGE=f, VF_NO_EVIDENCE="1")
        r = subprocess.run([os.path.join(HERE, "check"), p, "--tier", tier], env=env, capture_output=True, text=True, cwd=HERE)
        lines = set(open(f).read().split()) if os.path.exists(f) else set()
        return p, r.returncode, lines

    by_prop = {}
    with ThreadPoolExecutor(8) as ex:
        for p, rc, lines in ex.map(run, props):
            by_prop[p] = lines
            if rc != 0:
                print(f"warning: {p} exit {rc}")
    covered = set().union(*by_prop.values())
    # normalise to path relative to repo
    cov = set()
    for c in covered:
        fn, ln = c.rsplit(":", 1)
        fn = fn.replace(REPO.rstrip("/") + "/", "")
        cov.add((fn, int(ln)))
    tot = hit = 0
    report = []
    for root, _, files in os.walk(os.path.join(REPO, "exponax")):
        for f in sorted(files):
            if not f.endswith(".py"):
                continue
            path = os.path.join(root, f)
            rel = os.path.relpath(path, REPO)
            tree = ast.parse(open(path, encoding="utf-8").read())
            for fn in ast.walk(tree):
                if not isinstance(fn, (ast.FunctionDef, ast.AsyncFunctionDef)):
                    continue
                stmts = []
                for st in ast.walk(fn):
                    if isinstance(st, ast.stmt) and st is not fn and not isinstance(st, (ast.FunctionDef, ast.ClassDef)):
                        if isinstance(st, ast.Expr) and isinstance(st.value, ast.Constant):
                            continue
                        stmts.append(st.lineno)
                stmts = sorted(set(stmts))
                miss = [l for l in stmts if (rel, l) not in cov]
                tot += len(stmts)
                hit += len(stmts) - len(miss)
                if miss:
                    report.append((rel, fn.name, fn.lineno, len(stmts), miss))
    for rel, name, ln, n, miss in sorted(report):
        kind = "NEVER ENTERED" if len(miss) == n else "partial"
        print(f"{rel}:{ln} {name}: {kind} {len(miss)}/{n} uncovered" + (f" lines {miss}" if verbose or kind == "partial" else ""))
    print(f"statement coverage of exponax by the interpreter ({tier}): {hit}/{tot} = {100.0 * hit / max(tot, 1):.1f}%")
    import shutil

    shutil.rmtree(tmp, ignore_errors=True)


if __name__ == "__main__":
    main()
