#!/venv/bin/python
"""Mutation survey: how many small syntactic changes of /repo/exponax (outside viz) does *some* check report?

    tools/mutate.py [--sample N] [--seed S] [-j J] [--files substr,substr] [--out file.json]

For every sampled mutant (one AST node replaced, file otherwise byte-identical): copy the package to a scratch
directory, run the checks whose interpreter coverage includes the mutated line (plus the purely syntactic
checks), record who reports it (exit 1), who breaks (exit 2) and whether it survives.  Survivors are the input of
a manual triage (equivalent / outside every property / genuine miss); this is an audit aid, not a registered check.
"""
from __future__ import annotations

import ast
import copy
import json
import os
import random
import shutil
import subprocess
import sys
import tempfile
from concurrent.futures import ThreadPoolExecutor

HERE = os.path.dirname(os.path.dirname(os.path.abspath(__file__)))
REPO = os.environ.get("VF_REPO", "/repo")
PROPS = [f"C{i:02d}" for i in range(1, 21)]
ALWAYS = ["C07", "C19", "C20"]  # have purely syntactic rules over the whole package


def coverage():
    tmp = tempfile.mkdtemp(prefix="vf_cov_")

    def run(p):
        f = os.path.join(tmp, p + ".txt")
        env = dict(os.environ, VF_COVERAGE=f, VF_NO_EVIDENCE="1")
        subprocess.run([os.path.join(HERE, "check"), p], env=env, capture_output=True, text=True, cwd=HERE)
        out = set()
        if os.path.exists(f):
            for c in open(f).read().split():
                fn, ln = c.rsplit(":", 1)
                out.add((fn.replace(REPO.rstrip("/") + "/", ""), int(ln)))
        return p, out

    cov = {}
    with ThreadPoolExecutor(8) as ex:
        for p, s in ex.map(run, PROPS):
            cov[p] = s
    shutil.rmtree(tmp, ignore_errors=True)
    return cov


class Mut:
    def __init__(self, rel, node, new_src, op, stmt_line):
        self.rel, self.node, self.new_src, self.op, self.stmt_line = rel, node, new_src, op, stmt_line

    def ident(self):
        return f"{self.rel}:{self.node.lineno}:{self.node.col_offset}:{self.op}"


def gen_mutants(rel, text):
    tree = ast.parse(text)
    parents = {}
    for n in ast.walk(tree):
        for c in ast.iter_child_nodes(n):
            parents[c] = n
    out = []

    def stmt_of(n):
        while n in parents and not isinstance(n, ast.stmt):
            n = parents[n]
        return n

    def in_annotation(n):
        c = n
        while c in parents:
            p = parents[c]
            if isinstance(p, ast.AnnAssign) and p.annotation is c:
                return True
            if isinstance(p, ast.arg) and p.annotation is c:
                return True
            if isinstance(p, (ast.FunctionDef,)) and p.returns is c:
                return True
            c = p
        return False

    def add(node, new_node, op):
        st = stmt_of(node)
        if isinstance(st, ast.Expr) and isinstance(st.value, ast.Constant):
            return
        if isinstance(st, ast.Raise) or in_annotation(node):
            return
        try:
            src = ast.unparse(new_node)
        except Exception:
            return
        if isinstance(new_node, (ast.BinOp, ast.Compare, ast.UnaryOp, ast.BoolOp)):
            src = "(" + src + ")"
        lines = [st.lineno]
        if isinstance(st, (ast.FunctionDef, ast.ClassDef)):
            # a default value / decorator / class-level constant: relevant to whoever interprets the body
            lines = [x.lineno for x in ast.walk(st) if isinstance(x, ast.stmt) and x is not st]
        mu = Mut(rel, node, src, op, lines)
        mu.in_default = isinstance(st, (ast.FunctionDef, ast.ClassDef))
        out.append(mu)

    SWAP = {ast.Add: ast.Sub, ast.Sub: ast.Add, ast.Mult: ast.Div, ast.Div: ast.Mult, ast.FloorDiv: ast.Div, ast.Mod: ast.FloorDiv}
    CMP = {ast.Lt: ast.LtE, ast.LtE: ast.Lt, ast.Gt: ast.GtE, ast.GtE: ast.Gt, ast.Eq: ast.NotEq, ast.NotEq: ast.Eq}
    for n in ast.walk(tree):
        if isinstance(n, ast.BinOp) and type(n.op) in SWAP:
            if isinstance(n.left, ast.Constant) and isinstance(n.left.value, str):
                continue
            m = copy.deepcopy(n)
            m.op = SWAP[type(n.op)]()
            add(n, m, "binop")
        if isinstance(n, ast.BinOp) and isinstance(n.op, ast.Pow) and isinstance(n.right, ast.Constant) and isinstance(n.right.value, int):
            m = copy.deepcopy(n)
            m.right = ast.Constant(n.right.value + 1)
            add(n, m, "pow+1")
        if isinstance(n, ast.Compare) and len(n.ops) == 1 and type(n.ops[0]) in CMP:
            m = copy.deepcopy(n)
            m.ops = [CMP[type(n.ops[0])]()]
            add(n, m, "cmp")
        if isinstance(n, ast.UnaryOp) and isinstance(n.op, ast.USub) and not isinstance(n.operand, ast.Constant):
            add(n, copy.deepcopy(n.operand), "neg-drop")
        if isinstance(n, ast.Constant) and not isinstance(parents.get(n), ast.JoinedStr):
            v = n.value
            if isinstance(v, bool):
                add(n, ast.Constant(not v), "bool")
            elif isinstance(v, int):
                add(n, ast.Constant(v + 1), "int+1")
                if v != 0 and not (isinstance(parents.get(n), ast.UnaryOp)):
                    add(n, ast.Constant(v - 1), "int-1")
            elif isinstance(v, float):
                add(n, ast.Constant(v * 2 if v != 0 else 1.0), "float*2")
        if isinstance(n, ast.Call):
            for i, kw in enumerate(n.keywords):
                if kw.arg is not None and isinstance(kw.value, ast.Name) and kw.value.id == kw.arg:
                    m = copy.deepcopy(n)
                    del m.keywords[i]
                    add(n, m, f"kw-drop:{kw.arg}")
            if isinstance(n.func, ast.Attribute) and n.func.attr in ("real", "imag"):
                pass
        if isinstance(n, ast.Attribute) and n.attr in ("real", "imag") and isinstance(n.ctx, ast.Load):
            m = copy.deepcopy(n)
            m.attr = "imag" if n.attr == "real" else "real"
            add(n, m, "real-imag")
        if isinstance(n, ast.Subscript) and isinstance(n.slice, ast.Slice) and isinstance(n.ctx, ast.Load):
            s = n.slice
            if s.lower is not None and s.upper is None and s.step is None:
                m = copy.deepcopy(n)
                m.slice = ast.Slice(lower=None, upper=copy.deepcopy(s.lower), step=None)
                add(n, m, "slice-flip")
        if isinstance(n, ast.IfExp):
            m = copy.deepcopy(n)
            m.body, m.orelse = m.orelse, m.body
            add(n, m, "ifexp-swap")
        if isinstance(n, ast.If) and not any(isinstance(x, ast.Raise) for x in n.body):
            m = copy.deepcopy(n.test)
            add(n.test, ast.UnaryOp(op=ast.Not(), operand=m), "if-negate")
        if isinstance(n, ast.If) and any(isinstance(x, ast.Raise) for x in n.body) and not n.orelse:
            # a validation guard switched off
            add(n.test, ast.Constant(False), "guard-off")
        if isinstance(n, ast.Call):
            fname = ast.unparse(n.func)
            last = fname.split(".")[-1]
            if last == "where" and len(n.args) == 3:
                m = copy.deepcopy(n)
                m.args[1], m.args[2] = m.args[2], m.args[1]
                add(n, m, "where-swap")
            if last in NAME_SWAP and isinstance(n.func, (ast.Attribute, ast.Name)):
                m = copy.deepcopy(n)
                if isinstance(m.func, ast.Attribute):
                    m.func.attr = NAME_SWAP[last]
                else:
                    m.func.id = NAME_SWAP[last]
                add(n, m, f"call-swap:{last}")
            if len(n.args) >= 2 and not n.keywords and last not in ("where", "isinstance", "range", "zip", "getattr", "setattr", "super", "print"):
                a0, a1 = n.args[0], n.args[1]
                if not isinstance(a0, ast.Starred) and not isinstance(a1, ast.Starred) and ast.unparse(a0) != ast.unparse(a1) and type(a0) is type(a1):
                    m = copy.deepcopy(n)
                    m.args[0], m.args[1] = m.args[1], m.args[0]
                    add(n, m, "arg-swap")
        if isinstance(n, (ast.Assign, ast.AugAssign)) and isinstance(parents.get(n), ast.FunctionDef) is False and isinstance(n, ast.AugAssign):
            add(n, ast.Pass(), "stmt-del")
    return out


NAME_SWAP = {"sin": "cos", "cos": "sin", "min": "max", "max": "min", "minimum": "maximum", "maximum": "minimum", "real": "imag", "imag": "real",
             "sum": "mean", "mean": "sum", "amax": "amin", "zeros": "ones", "ones": "zeros", "zeros_like": "ones_like", "ones_like": "zeros_like",
             "fft": "ifft", "rfftn": "fftn", "floor": "ceil", "ceil": "floor", "sqrt": "square", "exp": "expm1", "concatenate": "stack", "stack": "concatenate",
             "conj": "real", "abs": "real", "std": "var", "triu": "tril", "prod": "sum"}


def apply(text, mut):
    lines = text.split("\n")
    n = mut.node
    # offsets are utf8 byte offsets; files are ascii-dominated, handle generally
    def off(lineno, col):
        return len(lines[lineno - 1].encode("utf-8")[:col].decode("utf-8"))

    a = off(n.lineno, n.col_offset)
    b = off(n.end_lineno, n.end_col_offset)
    if n.lineno == n.end_lineno:
        lines[n.lineno - 1] = lines[n.lineno - 1][:a] + mut.new_src + lines[n.lineno - 1][b:]
    else:
        first = lines[n.lineno - 1][:a] + mut.new_src + lines[n.end_lineno - 1][b:]
        lines[n.lineno - 1 : n.end_lineno] = [first] + [""] * (n.end_lineno - n.lineno)
    return "\n".join(lines)


def run_mut(mut, text, checks):
    variant = apply(text, mut)
    try:
        compile(variant, mut.rel, "exec")
    except SyntaxError as e:
        return {"id": mut.ident(), "status": "invalid", "detail": str(e)}
    tmp = tempfile.mkdtemp(prefix="vf_mut_")
    try:
        shutil.copytree(os.path.join(REPO, "exponax"), os.path.join(tmp, "exponax"), ignore=shutil.ignore_patterns("__pycache__"))
        with open(os.path.join(tmp, mut.rel), "w", encoding="utf-8") as f:
            f.write(variant)
        env = dict(os.environ, VF_REPO=tmp, VF_NO_EVIDENCE="1")
        env.pop("VF_COVERAGE", None)
        killed, broken = [], []
        for p in checks:
            try:
                r = subprocess.run([os.path.join(HERE, "check"), p], capture_output=True, text=True, env=env, cwd=HERE, timeout=900)
                rc = r.returncode
            except subprocess.TimeoutExpired:
                rc = 2
            if rc == 1:
                killed.append(p)
            elif rc != 0:
                broken.append(p)
        status = "killed" if killed else ("analysis-error" if broken else "survived")
        old = ast.get_source_segment(text, mut.node)
        return {"id": mut.ident(), "status": status, "killed_by": killed, "analysis_error_in": broken, "checks_run": checks,
                "old": old if old is None else old[:160], "new": mut.new_src[:160], "line": mut.node.lineno}
    finally:
        shutil.rmtree(tmp, ignore_errors=True)


def main():
    args = sys.argv[1:]

    def opt(name, default):
        return args[args.index(name) + 1] if name in args else default

    sample = int(opt("--sample", "300"))
    seed = int(opt("--seed", "1"))
    jobs = int(opt("-j", "14"))
    files = opt("--files", "")
    outp = opt("--out", os.path.join(HERE, "selftest", "mutation_survey.json"))
    cov = coverage()
    muts, texts = [], {}
    for root, _, fs in os.walk(os.path.join(REPO, "exponax")):
        for f in sorted(fs):
            path = os.path.join(root, f)
            rel = os.path.relpath(path, REPO)
            if not f.endswith(".py") or "/viz/" in rel:
                continue
            if files and not any(s in rel for s in files.split(",")):
                continue
            texts[rel] = open(path, encoding="utf-8").read()
            muts += gen_mutants(rel, texts[rel])
    ops = opt("--ops", "")
    if ops:
        muts = [m for m in muts if m.op.split(":")[0] in ops.split(",")]
    notops = opt("--not-ops", "")
    if notops:
        muts = [m for m in muts if m.op.split(":")[0] not in notops.split(",")]
    if "--no-defaults" in args:
        muts = [m for m in muts if not m.in_default]
    muts.sort(key=lambda m: m.ident())
    random.Random(seed).shuffle(muts)
    total = len(muts)
    muts = muts[:sample]
    jobs_list = []
    for m in muts:
        checks = sorted({p for p in PROPS if any((m.rel, l) in cov[p] for l in m.stmt_line)} | set(ALWAYS))
        jobs_list.append((m, checks))
    res = []
    with ThreadPoolExecutor(jobs) as ex:
        for r in ex.map(lambda mc: run_mut(mc[0], texts[mc[0].rel], mc[1]), jobs_list):
            res.append(r)
            print(f"[{r['status']}] {r['id']} {r.get('old')!r} -> {r.get('new')!r} {r.get('killed_by', '')}", flush=True)
    summ = {}
    for r in res:
        summ[r["status"]] = summ.get(r["status"], 0) + 1
    json.dump({"population": total, "sample": len(muts), "seed": seed, "summary": summ, "results": res}, open(outp, "w"), indent=1)
    print("population", total, "sampled", len(muts), summ)


if __name__ == "__main__":
    main()
