#!/bin/bash
# re-checks every kept seeded change against the CURRENT checkers: each check recorded as reporting it must still exit 1
# (patch applied to /repo, checks run, patch undone).  usage: reeval_seeds.sh [seed-dir-glob]
cd /verif
git -C /repo status --porcelain | grep -q . && { echo "/repo not clean"; exit 3; }
bad=0
for d in seeded/${1:-S*}; do
  id=$(basename $d)
  checks=$(/venv/bin/python -c "import json;print(' '.join(c.split('(')[0] for c in json.load(open('$d/meta.json'))['checks_reporting_a_violation']))")
  git -C /repo apply /verif/$d/patch.diff || { echo "$id: patch does not apply"; bad=1; continue; }
  res=""
  for c in $checks; do
    VF_NO_EVIDENCE=1 timeout 1800 ./check $c > /tmp/w/reeval.out 2>&1; rc=$?
    [ $rc -ne 1 ] && { res="$res $c(exit$rc)"; bad=1; }
  done
  git -C /repo checkout -- .
  echo "$id: ${res:-all still reported} [$checks]"
done
exit $bad
