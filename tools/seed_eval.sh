#!/bin/bash
# usage: seed_eval.sh <n> <seed-id>   : verifies a seeded change produced in /tmp/seed/{wt_n,out_n}, then runs every
# check against /repo with the patch applied (and undoes it), and stores everything under /verif/seeded/<seed-id>/
set -u
n=$1; id=$2
WT=/tmp/seed/wt_$n; OUT=/tmp/seed/out_$n; DST=/verif/seeded/$id
mkdir -p $DST
cp $OUT/patch.diff $OUT/demo.py $DST/ 2>/dev/null
cp $OUT/meta.json $DST/agent_meta.json 2>/dev/null
cd $WT
git checkout -q -- . ; git apply $OUT/patch.diff
PYTHONPATH=$WT timeout 1200 /venv/bin/python $OUT/demo.py > $DST/demo_with_change.log 2>&1; with=$?
git checkout -q -- .
PYTHONPATH=$WT timeout 1200 /venv/bin/python $OUT/demo.py > $DST/demo_without_change.log 2>&1; without=$?
git apply $OUT/patch.diff
echo "demo exit with change=$with without=$without"
# checks against /repo with the patch applied
cd /repo && git status --porcelain | grep -q . && { echo "/repo not clean"; exit 3; }
git -C /repo apply $OUT/patch.diff || { echo "patch does not apply to /repo"; exit 3; }
caught=""
cd /verif
for p in C01 C02 C03 C04 C05 C06 C07 C08 C09 C10 C11 C12 C13 C14 C15 C16 C17 C18 C19 C20; do
  out=$(VF_NO_EVIDENCE=1 VF_EVIDENCE_DIR=/tmp/seed/ev_$n ./check $p 2>&1); rc=$?
  if [ $rc -ne 0 ]; then caught="$caught $p(exit$rc)"; echo "$out" | grep -m2 "VIOLATION\|ANALYSIS-ERROR" | cut -c1-400 > $DST/check_$p.log; fi
done
git -C /repo checkout -- .
echo "checks reporting:$caught"
echo "{\"demo_exit_with_change\": $with, \"demo_exit_without_change\": $without, \"checks_reporting\": \"$caught\"}" > $DST/eval.json
rm -rf /tmp/seed/ev_$n
