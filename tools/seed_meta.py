#!/venv/bin/python
"""writes /verif/seeded/<id>/meta.json from the agent's meta and my own evaluation"""
import json, os, sys, glob
for d in sorted(glob.glob('/verif/seeded/S*')):
    am = {}
    try:
        am = json.load(open(os.path.join(d, 'agent_meta.json')))
    except Exception:
        pass
    ev = json.load(open(os.path.join(d, 'eval.json')))
    logs = {}
    for f in sorted(glob.glob(os.path.join(d, 'check_C*.log'))):
        logs[os.path.basename(f)[6:9]] = open(f).read().strip().splitlines()[:1]
    meta = {
        "property_broken": am.get("property"),
        "summary": am.get("summary"),
        "needs_to_manifest": am.get("needs_to_manifest"),
        "origin": "fresh sub-agent given only the property text and a scratch worktree (no access to /verif)",
        "confirmed_by_me": {
            "demo_exit_with_change": ev["demo_exit_with_change"],
            "demo_exit_without_change": ev["demo_exit_without_change"],
            "test_suite_reported_by_agent": am.get("tests_run"),
            "test_suite_rerun_by_me": (json.load(open(os.path.join(d, 'tests_confirmed.json'))) if os.path.exists(os.path.join(d, 'tests_confirmed.json')) else None),
            "how": "tools/seed_eval.sh: demo.py run in the scratch worktree with and without patch.diff (PYTHONPATH=<worktree>); then `git -C /repo apply patch.diff`, every ./check Cxx (quick), `git -C /repo checkout -- .`",
        },
        "checks_reporting_a_violation": [c for c in ev["checks_reporting"].split() if "exit1" in c],
        "checks_without_verdict_exit2": [c for c in ev["checks_reporting"].split() if "exit1" not in c],
        "first_report_per_check": logs,
    }
    json.dump(meta, open(os.path.join(d, 'meta.json'), 'w'), indent=1)
    print(d, meta["checks_reporting_a_violation"])
