#!/venv/bin/python
"""Regenerates /verif/MANIFEST.json from the table below (run after adding a check)."""
import json
import os

HERE = os.path.dirname(os.path.dirname(os.path.abspath(__file__)))

TV = "translation_validation"
OT = "other"

# id -> (level, technique, text, note, design_ref)
CHECKS = {
    "C01": (TV, "algebraic value numbering (abstract interpretation of the constructors over an exact Laurent-polynomial domain) vs documented Fourier symbols",
            "Every linear stepper's Fourier symbol, its propagator exp(dt*symbol), the order-0 step and the wave transform pair are computed from the syntax tree for D in {1,2,3}, every flag / coefficient-form row, N even and odd, and compared by normal-form identity with the documented PDE symbol; continuous parameters stay symbols so the comparison holds for all L, dt, coefficients, states.",
            "Decides the formula clauses only: rounding and the accuracy of jnp.fft are trusted/not decided. Trusted: CPython ast, vf/ normal forms, specs/linear.py transcribed from the class docstrings.", "3 C01"),
    "C02": (TV, "algebraic value numbering of ETDRK constructors and stage recursions vs Cox-Matthews / Kassam-Trefethen closed forms (spec table self-validated by exact power series)",
            "All coefficient fields of ETDRK1-4 for a symbolic complex linear symbol, the exponentials, the contour points, the four stage recursions with an uninterpreted nonlinear term, and the order dispatch / parameter forwarding of every exported stepper are compared with the reference by normal-form identity.",
            "Measured convergence rates, rounding and stiffness behaviour are not decided. Trusted: semantics of lax.scan (left fold), jnp.exp, arithmetic.", "3 C02"),
    "C03": (TV, "algebraic value numbering of every nonlinear term (dealiased transforms as linear atoms) vs documented operators + exact alias-freeness inequality",
            "Each built-in nonlinear function is interpreted for D in {1,2,3}, all flag rows and both parities with a symbolic spectrum; the per-channel canonical form (which products, which derivative multipliers, pre- and post-dealiasing masks, signs, scales) must equal the documented operator; the mask predicate and the alias-free inequality (p+1)*cutoff < N are decided exactly for N=2m and N=2m+1.",
            "Does not compare numbers with a fine-grid oracle; FFT exactness trusted.", "3 C03"),
    "C04": (OT, "axis-role abstract interpretation of the spectral layout functions + sibling agreement + per-world scaling tables",
            "The transform pair, wavenumber layout, scaling arrays (DC/interior/Nyquist per axis), mode slices, masks and grid construction are evaluated with symbolic axes that remember which array axis they vary along; all must agree on 'leading axes full, last axis halved' for D in {1,2,3}, N even/odd, both indexings; consumers of the indexing option (derivative, make_incompressible, coefficient read-off) must return the axis-relabelled ij result; ifft with inferred sizes must undo fft.",
            "Numeric round trip of jnp.fft is library behaviour (not decided).", "3 C04"),
    "C05": (TV, "algebraic value numbering of derivative / Laplace / gradient-inner-product / Poisson operators vs analytic symbols; guard dominance",
            "derivative, build_laplace_operator, build_gradient_inner_product_operator and Poisson are interpreted for D in {1,2,3}, orders 1..6, C in {1,2,3}; canonical forms must equal (i k)^order symbols; Poisson must satisfy Laplace^order * u = -f off DC and u(0)=0; parity guards must raise.",
            "Rounding not decided; Nyquist caveat is part of the property's precondition.", "3 C05"),
    "C06": (OT, "trace-safety analysis: abstract interpretation with symbolic (tracer-like) floats, every Python branch / coercion / isinstance dispatch on a symbolic value is a finding",
            "Constructors and call paths of every exported stepper, wrapper, integrator and nonlinear function are interpreted with every float parameter symbolic (what eqx.filter_vmap traces) and with a symbolic state; any Python-level control flow, bool()/float()/int() coercion, shape computed from a value, isinstance(float) dispatch, or attribute mutation outside __init__ is reported with its site.",
            "Necessary condition only: equality of the numbers under jit/vmap is JAX's contract and not decided.", "3 C06"),
    "C07": (OT, "banned-construct and where-guard rules over the reachable call graph + syntactic linearity of order-0 steps (canonical form homogeneous of degree 1 in the state)",
            "No AD-blocking construct (stop_gradient, rounding/sign/argmax, integer casts, numpy, callbacks, while_loop) on differentiated paths; every masked singular expression depends on geometry only or uses the guard-before-divide idiom; no sqrt / norm / fractional power / log / division applied to a state-dependent value that can vanish; loops are lax.scan with static length; linear steppers are linear maps of the state.",
            "Necessary conditions only: agreement of JAX derivatives with finite differences is the correctness of JAX AD and is not decided.", "3 C07"),
    "C08": (TV, "symmetry algebra on canonical forms: axis/channel permutation invariance, embedding reduction, shift-commuting building blocks only",
            "The canonical symbols and nonlinear terms computed for C01/C03 are renamed under every axis permutation (with the velocity channels) and must be unchanged; with all but one derivative symbol zero they must reduce to the 1-D forms; only Fourier multipliers, masks, pointwise products and global means may occur; state-independent additive spectra only in the documented forced classes.",
            "Numeric commutation error not decided.", "3 C08"),
    "C09": (TV, "DC-world evaluation of canonical forms (mean conservation of divergence-form terms) + constant-state world (equilibria) + telescoping of ETDRK weights",
            "Linear symbols vanish at k=0, conservative nonlinear terms have identically zero DC component, documented constant equilibria annihilate L(0)u+N(u) identically, and the ETDRK update maps them to themselves for orders 1-4.",
            "Energy/enstrophy neutrality and mean conservation of the non-divergence-form rows need discrete integration by parts: not decided.", "3 C09"),
    "C10": (TV, "algebraic identities of the projection in the exact algebra with the inverse-Laplacian relation (div P = 0, P P = P, P = id on divergence-free fields), sibling agreement with make_incompressible",
            "Leray, make_incompressible, ProjectedConvection3d and the velocity steppers are interpreted for D in {2,3}; identities are decided by normal forms in the generic and DC worlds.", "Accumulated rounding not decided.", "3 C10"),
    "C11": (TV, "sign analysis of the real part of every linear symbol under D_j = i*kappa_j; propagator form; orthonormality of the wave rotation",
            "Real parts must be sums of -(documented non-negative coefficient)*(even powers) or vanish identically; the step multiplies by exp(dt*symbol); the wave transform is unitary and its multipliers unimodular.",
            "Norm contraction of irfftn and rounding not decided.", "3 C11"),
    "C12": (TV, "mode-set / amplitude / phase evaluation of the injected spectrum vs the rfft representation of the documented forcing; ForcedStepper formulas",
            "Channel, axis, wavenumber, amplitude (incl. 2*pi/L on vorticity), phase and Hermitian partner of both Kolmogorov forcings; forcing added at every stage; forwarding of injection parameters; ForcedStepper = step(u + dt f).",
            "Laminar-solution numerics not decided.", "3 C12"),
    "C13": (TV, "pairwise canonical-form equality of specific vs generic vs normalized vs difficulty constructors; conversion functions vs documented formulas and mutual inverses",
            "For every documented pair and D, flags, both steppers are constructed symbolically: channel count, dt, linear symbol, nonlinear term, mask, integrator class must coincide; conversions compared with the docstring formulas for tuples of length 7.",
            "Float tolerance of comparing two steppers not decided.", "3 C13"),
    "C14": (OT, "structural interpretation of the scan bodies with an uninterpreted stepper (carry/emit/aux order, init prepend, windows) + traced-key safety of every generator",
            "rollout/repeat/stack_sub_trajectories/RepeatedStepper/build_ic_set scan bodies must be exactly the naive recurrence for every flag row; every exported IC generator must be callable with a traced key.",
            "lax.scan left-fold semantics trusted.", "3 C14"),
    "C15": (TV, "algebraic value numbering of FourierInterpolator and slice/scaling analysis of map_between_resolutions over all parity/order rows",
            "Interpolant formula; rescale-copy-rescale with agreeing scaling modes; block slices denote the same wavenumbers on both sides, do not overlap, cover the retained band; DC preserved.",
            "Numeric exactness not decided.", "3 C15"),
    "C16": (TV, "value numbering of the aggregators + sibling table of the 27 metric functions + forwarding rule",
            "Aggregator formulas, Parseval weights, band masks, (p,q,mode) table for MAE/MSE/RMSE x abs/norm/sym x spatial/Fourier/H1, every option forwarded, documented invalid combinations raise.",
            "Metric axioms as measured numbers not decided.", "3 C16"),
    "C17": (TV, "value numbering of get_spectrum: weights, half-open bucket predicate, bin range, reducers, channel map",
            "magnitude and power weights, closed-below/open-above bucket predicate, bins 0..N//2, nansum/nanmean reducers, vmap over channels, for D in {1,2,3}.", "Numeric Parseval not decided.", "3 C17"),
    "C18": (OT, "shape-domain interpretation of every generator + PRNG-key typestate + option-validation sibling rule + formula checks of normalisation/offset/clamp/scale",
            "Channel count and spatial shape, key discipline (every draw from a split descendant, no reuse), validation guards, normalisation order, offset = mean, clamp/scale formulas, documented ranges of every random parameter (lo + (hi-lo)*U), function form == sampled form.",
            "Statistics of sampled values not decided.", "3 C18"),
    "C19": (OT, "banned-construct rule (hard-coded precisions) + contour-shift rule on the canonical coefficient integrands + accumulator typing",
            "No floating/complex width pinned on state paths; every division by a quantity derived from the linear symbol is contour-shifted; the only direct functions of dt*lambda are exps; accumulators take the operator's dtype.",
            "Finiteness up to 1e15 and float32/float64 agreement need floating-point range analysis: not decided.", "3 C19"),
    "C20": (OT, "guard-dominance and who-may-override rules over the resolved class graph + restriction table enumeration via abstract interpretation (constructors must raise ValueError for excluded dimensions / options)",
            "Every exported stepper resolves __call__ to a shape-guarded implementation comparing the full shape tuple; every documented dimension/parity/option restriction has a dominating raise ValueError; correctly shaped states are accepted and keep their shape.",
            "-", "3 C20"),
}

# properties whose checker exists (kept in sync by hand as checkers are added)
CLAIMED = json.load(open(os.path.join(HERE, "tools", "claimed.json")))

NA_REASON = {
}


def main():
    checks = []
    for pid in sorted(CHECKS):
        if pid not in CLAIMED:
            continue
        level, tech, text, note, ref = CHECKS[pid]
        checks.append(
            {
                "property_id": pid,
                "quick_cmd": f"./check {pid}",
                "thorough_cmd": f"./check {pid} --tier thorough",
                "evidence_file": f"/verif/evidence/{pid}.json",
                "replay_cmd_template": f"./check {pid} --replay {{path}}",
                "engine": "vf",
                "level_claimed": {"category": level, "text": text, "design_ref": f"DESIGN.md section {ref}"},
                "level_note": note,
                "technique": "static analysis: " + tech,
            }
        )
    na = []
    for pid in sorted(CHECKS):
        if pid not in CLAIMED:
            na.append({"property_id": pid, "reason": NA_REASON.get(pid, "checker not built yet in this session (planned, see DESIGN.md section 3); not claimed until it exists")})
    m = {
        "version": 1,
        "setup_cmd": "/venv/bin/python -m compileall -q vf props specs tools >/dev/null 2>&1; /venv/bin/python -c \"import ast,sys\"",
        "hooks": {
            "guard": "EXPONAX_VERIF",
            "enable": "none needed: the checks parse /repo's working tree with ast; nothing in the repository is instrumented or executed",
            "baseline_off_cmd": "cd /repo && /venv/bin/python -m pytest -ra -q -p no:cacheprovider --timeout=900 --continue-on-collection-errors",
            "source_commits": [],
            "add_only": True,
        },
        "engines": [
            {
                "name": "vf",
                "path": "/verif/vf",
                "serves_properties": sorted(CLAIMED),
                "kind_free_text": "stdlib-only static analyser: program model + AST abstract interpreter over an exact Laurent-polynomial value-numbering domain with symbolic tensor axes; reference formulas in /verif/specs",
            }
        ],
        "checks": checks,
        "not_applicable": na,
        "notes": "Technique family: static analysis only (no repository code is imported or run by any check). Numeric clauses of the properties (rounding, tolerances, measured rates) are declared not decided per check in level_note and DESIGN.md section 4. Genuine defects found and repaired are listed in known_findings.json (status fixed). Tiers: the symbolic rows of the quick tier already cover all N of each parity, all L, dt, coefficients and states; the thorough tier adds the configuration rows quick prunes (both parities everywhere, longer coefficient tuples, all ETDRK orders, larger n) and, when the property held, a rule-liveness pass: every mutation witness of the property (selftest/witnesses.py, one construct of the current tree edited in a scratch copy outside /repo and /verif) must still be reported by the quick check, so that a rule whose anchors vanished cannot pass vacuously (exit 2 if one is no longer reported). Exit 2 / ANALYSIS-ERROR = no verdict (unsupported construct, vanished anchor); a definite exception of the interpreted repository code in a covered configuration is a VIOLATION of rule no-raise.",
    }
    # an explicit (possibly empty) list: every property is claimed; the declined CLAUSES are in each level_note / notes
    json.dump(m, open(os.path.join(HERE, "MANIFEST.json"), "w"), indent=1)
    print("claimed:", sorted(CLAIMED))


if __name__ == "__main__":
    main()
