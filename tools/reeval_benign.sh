#!/bin/bash
# re-checks every kept behaviour-preserving refactoring against the CURRENT checkers: all 20 quick checks must exit 0
cd /verif
git -C /repo status --porcelain | grep -q . && { echo "/repo not clean"; exit 3; }
bad=0
for d in benign/${1:-B*}; do
  id=$(basename $d)
  git -C /repo apply /verif/$d/patch.diff || { echo "$id: patch does not apply"; bad=1; continue; }
  res=""
  for c in C01 C02 C03 C04 C05 C06 C07 C08 C09 C10 C11 C12 C13 C14 C15 C16 C17 C18 C19 C20; do
    VF_NO_EVIDENCE=1 timeout 1800 ./check $c > /tmp/w/reevalb.out 2>&1; rc=$?
    [ $rc -ne 0 ] && { res="$res $c(exit$rc)"; bad=1; }
  done
  git -C /repo checkout -- .
  echo "$id: ${res:-all silent}"
done
exit $bad
