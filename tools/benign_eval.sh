#!/bin/bash
# usage: benign_eval.sh <n> <id>  : a behaviour-preserving refactoring produced by a fresh sub-agent in /tmp/seed/{wt_n,out_n}.
# 1. re-runs the agent's equivalence demonstration myself (before / after in the scratch worktree, compare.py must exit 0)
# 2. applies the patch to /repo, runs every check (quick), undoes it: every check must stay silent (exit 0)
# results under /verif/benign/<id>/
set -u
n=$1; id=$2
WT=/tmp/seed/wt_$n; OUT=/tmp/seed/out_$n; DST=/verif/benign/$id
mkdir -p $DST
cp $OUT/patch.diff $OUT/demo.py $OUT/compare.py $DST/ 2>/dev/null
cp $OUT/meta.json $DST/agent_meta.json 2>/dev/null
cd $WT
git checkout -q -- . ;
PYTHONPATH=$WT timeout 3000 /venv/bin/python $OUT/demo.py /tmp/seed/my_before_$n.npz > $DST/demo_before.log 2>&1
git apply $OUT/patch.diff
PYTHONPATH=$WT timeout 3000 /venv/bin/python $OUT/demo.py /tmp/seed/my_after_$n.npz > $DST/demo_after.log 2>&1
cp $OUT/before.npz /tmp/seed/agent_before_$n.npz 2>/dev/null; cp $OUT/after.npz /tmp/seed/agent_after_$n.npz 2>/dev/null
cp /tmp/seed/my_before_$n.npz $OUT/before.npz; cp /tmp/seed/my_after_$n.npz $OUT/after.npz
(cd $OUT && timeout 600 /venv/bin/python $OUT/compare.py > $DST/compare.log 2>&1); cmp=$?
echo "equivalence compare exit=$cmp: $(tail -1 $DST/compare.log)"
cd /repo && git status --porcelain | grep -q . && { echo "/repo not clean"; exit 3; }
git -C /repo apply $OUT/patch.diff || { echo "patch does not apply to /repo"; exit 3; }
bad=""
cd /verif
for p in C01 C02 C03 C04 C05 C06 C07 C08 C09 C10 C11 C12 C13 C14 C15 C16 C17 C18 C19 C20; do
  out=$(VF_NO_EVIDENCE=1 VF_EVIDENCE_DIR=/tmp/seed/ev_$n timeout 1800 ./check $p 2>&1); rc=$?
  if [ $rc -ne 0 ]; then bad="$bad $p(exit$rc)"; echo "$out" | grep -m3 "VIOLATION\|ANALYSIS-ERROR" | cut -c1-500 > $DST/check_$p.log; fi
done
git -C /repo checkout -- .
echo "checks NOT silent:$bad"
echo "{\"equivalence_compare_exit\": $cmp, \"checks_not_silent\": \"$bad\"}" > $DST/eval.json
rm -rf /tmp/seed/ev_$n /tmp/seed/my_before_$n.npz /tmp/seed/my_after_$n.npz /tmp/seed/agent_before_$n.npz /tmp/seed/agent_after_$n.npz
