"""C16 - error metrics are consistent quadratures of the documented norms (DESIGN 3, C16)."""

from __future__ import annotations

import itertools
from fractions import Fraction as Fr

from vf import alg, catalog
from vf import symops as SO
from vf.alg import Poly, as_poly
from vf.harness import Check, new_interp, N, L, H_of, loc, AnalysisBroken, state_phys
from vf.interp import RepoRaise, UndecidableBranch
from vf.tens import Tens
from specs import common as C

PROP = "C16"
LEVEL = "translation_validation"
S = Poly.sym

# documented table: name -> (family, mode, inner exponent p, outer exponent q)
PQ = {"MAE": (1, 1), "MSE": (2, 1), "RMSE": (2, Fr(1, 2))}
PREFIX = {"": "absolute", "n": "normalized", "s": "symmetric"}


def spatial_agg(u, D, Lx, p, q):
    if q is None:
        q = 1 / Fr(p)
    return ((Lx / N) ** D * SO.sym_sum(alg.absval(u) ** p, (N,) * D)) ** q


def fourier_agg(it, u, D, parity, Lx, p, q, low, high, order, S_rec):
    if q is None:
        q = 1 / Fr(p)
    fshape = (N,) * (D - 1) + (H_of(parity),)
    uh = C.fft(u, D)
    chi = alg.ind("lt", alg.absval(uh), Fr(1, 100000))
    uh = (1 - chi) * uh
    if low is not None or high is not None:
        lo = 0 if low is None else low
        hi = (N - parity) / 2 + 1 if high is None else high
        uh = uh * ((1 - C.lowpass(D, as_poly(lo) - 1)) * C.lowpass(D, hi))
    chans = [uh * d**order for d in C.deriv(D, Lx)] if order is not None else [uh]
    out = Poly()
    for s in chans:
        out = out + ((Lx / N) ** D * SO.sym_sum(alg.absval(s) ** p / S_rec, fshape)) ** q
    return out


def norm_ref(agg, u, ref, mode):
    """per channel aggregate of the difference, normalised as documented, summed over channels"""
    out = Poly()
    for c in range(len(u)):
        diff = u[c] - ref[c] if ref is not None else u[c]
        d = agg(diff)
        if mode == "normalized":
            d = d / agg(ref[c])
        elif mode == "symmetric":
            d = 2 * d / (agg(u[c]) + agg(ref[c]))
        out = out + d
    return out


def run(tier="quick", only_key=None):
    ck = Check(PROP, LEVEL, tier, only_key)
    ck.rule("aggregator", "spatial_aggregator = ((L/N)^D sum |u|^p)^q ; fourier_aggregator = sum over derivative channels ((L/N)^D sum_stored |u^'|^p / S_reconstruction)^q with the 1e-5 floor, band mask not lowpass(low-1) and lowpass(high), optional (i k 2pi/L)^order; q defaults to 1/p")
    ck.rule("norm", "spatial_norm / fourier_norm: per channel absolute d, normalized d/ref, symmetric 2d/(a+b), summed over channels")
    ck.rule("metric-table", "every public metric equals the norm with its documented (mode, p, q): MAE (1,1), MSE (2,1), RMSE (2,1/2); prefixes n/s; fourier_ variants; H1_X = fourier_X + fourier_X(derivative_order=1); all options (domain_extent, low, high, derivative_order) forwarded")
    ck.rule("guards", "normalized / symmetric modes without reference raise ValueError")
    ck.rule("correlation", "correlation = mean over channels of <u/|u|, v/|v|>")
    ck.rule("mean-metric", "mean_metric = mean over the leading batch axis of the metric")
    Lx = L
    n_names = 0
    for parity in (0, 1):
        it = new_interp(ck.repo, parity=parity)
        names = dict(catalog.all_list(it, "exponax.metrics"))
        if parity == 0:
            ck.floor("public metric names", len(names), 27)
        bsa = it.module("exponax._spectral").env.get("build_scaling_array")
        dims = (1, 2, 3) if parity == 0 or tier == "thorough" else (2,)
        for D in dims:
            S_rec = C.scaling(D, "reconstruction", parity)
            Cn = 2
            u = state_phys(D, Cn, "u")
            r = state_phys(D, Cn, "v")
            ul, rl = list(u.data), list(r.data)
            tag = f"D={D},Nparity={parity}"
            # ---- aggregators
            for p, q in ((1, 1), (2, 1), (2, Fr(1, 2)), (2, None), (1, None)):
                x = Tens((N,) * D, [ul[0]])
                res = it.call(names["spatial_aggregator"], [x], {"domain_extent": Lx, "inner_exponent": Fr(p), **({} if q is None else {"outer_exponent": Fr(q)})})
                ck.compare("aggregator", f"exponax.metrics.spatial_aggregator#p={p},q={q},{tag}", loc(names["spatial_aggregator"]), _sc(res), spatial_agg(ul[0], D, Lx, p, q))
                for low, high, order in ((None, None, None), (S("lo"), S("hi"), None), (S("lo"), None, 1), (None, S("hi"), 2), (None, None, 1), (0, S("hi"), None), (0, 4, None), (1, S("hi"), None), (2, None, 1), (3, 5, None)):
                    if isinstance(low, int) and (p, q) not in ((2, Fr(1, 2)), (1, 1)) and tier == "quick":
                        continue
                    kw = {"domain_extent": Lx, "inner_exponent": Fr(p), "low": low, "high": high, "derivative_order": order}
                    if q is not None:
                        kw["outer_exponent"] = Fr(q)
                    key = f"exponax.metrics.fourier_aggregator#p={p},q={q},low={low},high={high},order={order},{tag}"
                    try:
                        res = it.call(names["fourier_aggregator"], [x], kw)
                    except UndecidableBranch as e:
                        if isinstance(low, Poly) or isinstance(high, Poly):
                            # a Python-level decision on the (static integer) band limit: the symbolic row cannot be
                            # evaluated, the concrete rows below decide
                            ck.notes.append(f"{key}: symbolic band limit not evaluable ({e}); decided by the concrete rows")
                            continue
                        raise
                    ck.compare("aggregator", key, loc(names["fourier_aggregator"]), _sc(res), fourier_agg(it, ul[0], D, parity, Lx, p, q, low, high, order, S_rec))
            # ---- norms
            for mode in ("absolute", "normalized", "symmetric"):
                res = it.call(names["spatial_norm"], [u, r], {"mode": mode, "domain_extent": Lx, "inner_exponent": Fr(2), "outer_exponent": Fr(1, 2)})
                ref = norm_ref(lambda x: spatial_agg(x, D, Lx, 2, Fr(1, 2)), ul, rl, mode)
                ck.compare("norm", f"exponax.metrics.spatial_norm#{mode},{tag}", loc(names["spatial_norm"]), _sc(res), ref)
                if mode != "symmetric":
                    for blo, bhi in ((S("lo"), S("hi")), (0, 3), (2, 5)):
                        try:
                            res = it.call(names["fourier_norm"], [u, r], {"mode": mode, "domain_extent": Lx, "inner_exponent": Fr(2), "outer_exponent": Fr(1, 2), "low": blo, "high": bhi, "derivative_order": 1})
                        except UndecidableBranch:
                            if isinstance(blo, Poly):
                                continue
                            raise
                        ref = norm_ref(lambda x: fourier_agg(it, x, D, parity, Lx, 2, Fr(1, 2), blo, bhi, 1, S_rec), ul, rl, mode)
                        ck.compare("norm", f"exponax.metrics.fourier_norm#{mode},low={blo},high={bhi},{tag}", loc(names["fourier_norm"]), _sc(res), ref)
            res = it.call(names["spatial_norm"], [u], {"domain_extent": Lx})
            ck.compare("norm", f"exponax.metrics.spatial_norm#no-ref,{tag}", loc(names["spatial_norm"]), _sc(res), norm_ref(lambda x: spatial_agg(x, D, Lx, 2, None), ul, None, "absolute"))
            # ---- table
            for base, (p, q) in PQ.items():
                for pre, mode in PREFIX.items():
                    nm = pre + base
                    if nm not in names:
                        raise AnalysisBroken(f"metric {nm} vanished from exponax.metrics.__all__")
                    res = it.call(names[nm], [u, r], {"domain_extent": Lx})
                    ref = norm_ref(lambda x: spatial_agg(x, D, Lx, p, q), ul, rl, mode)
                    ck.compare("metric-table", f"exponax.metrics.{nm}#{tag}", loc(names[nm]), _sc(res), ref, what=f"{nm} is not the {mode} norm with (p,q)=({p},{q}) and all options forwarded")
                    n_names += 1
                for pre, mode in (("", "absolute"), ("n", "normalized")):
                    nm = "fourier_" + pre + base
                    if nm not in names:
                        raise AnalysisBroken(f"metric {nm} vanished")
                    for low, high, order in ((None, None, None), (S("lo"), S("hi"), 2), (0, 3, None), (1, None, 1)):
                        try:
                            res = it.call(names[nm], [u, r], {"domain_extent": Lx, "low": low, "high": high, "derivative_order": order})
                        except UndecidableBranch:
                            if isinstance(low, Poly) or isinstance(high, Poly):
                                continue
                            raise
                        ref = norm_ref(lambda x: fourier_agg(it, x, D, parity, Lx, p, q, low, high, order, S_rec), ul, rl, mode)
                        ck.compare("metric-table", f"exponax.metrics.{nm}#low={low},high={high},order={order},{tag}", loc(names[nm]), _sc(res), ref, what=f"{nm} is not the {mode} Fourier norm with (p,q)=({p},{q}) and all options forwarded")
                    n_names += 1
                    nm = "H1_" + pre + base
                    if nm not in names:
                        raise AnalysisBroken(f"metric {nm} vanished")
                    for blo, bhi in ((S("lo"), S("hi")), (0, 3), (1, 4)):
                        try:
                            res = it.call(names[nm], [u, r], {"domain_extent": Lx, "low": blo, "high": bhi})
                        except UndecidableBranch:
                            if isinstance(blo, Poly):
                                continue
                            raise
                        ref = norm_ref(lambda x: fourier_agg(it, x, D, parity, Lx, p, q, blo, bhi, None, S_rec), ul, rl, mode) + norm_ref(lambda x: fourier_agg(it, x, D, parity, Lx, p, q, blo, bhi, 1, S_rec), ul, rl, mode)
                        ck.compare("metric-table", f"exponax.metrics.{nm}#low={blo},high={bhi},{tag}", loc(names[nm]), _sc(res), ref, what=f"{nm} is not fourier_{pre}{base} + fourier_{pre}{base}(derivative_order=1) with all options forwarded")
                    n_names += 1
            # ---- guards
            for fn_, mode in (("spatial_norm", "normalized"), ("spatial_norm", "symmetric"), ("fourier_norm", "normalized")):
                key = f"exponax.metrics.{fn_}#guard-{mode},{tag}"
                try:
                    it.call(names[fn_], [u], {"mode": mode})
                    ck.fail("guards", key, loc(names[fn_]), f"mode {mode} without reference is accepted")
                except RepoRaise as e:
                    if e.exc_name == "ValueError":
                        ck.ok("guards", key)
                    else:
                        ck.fail("guards", key, loc(names[fn_]), f"raises {e.exc_name} instead of ValueError")
            # ---- correlation
            res = it.call(names["correlation"], [u, r])
            tot = Poly()
            for c in range(Cn):
                nu = alg.sqrt(SO.sym_sum(ul[c] * ul[c], (N,) * D))
                nr = alg.sqrt(SO.sym_sum(rl[c] * rl[c], (N,) * D))
                tot = tot + SO.sym_sum((ul[c] / nu) * (rl[c] / nr), (N**D,))
            ck.compare("correlation", f"exponax.metrics.correlation#{tag}", loc(names["correlation"]), _sc(res), tot / Cn)
            # ---- mean_metric over a batch of 2
            ub = Tens((2,) + u.shape, [Poly.atom(("u", f"u{b}", c, "P")) for b in range(2) for c in range(Cn)])
            rb = Tens((2,) + u.shape, [Poly.atom(("u", f"v{b}", c, "P")) for b in range(2) for c in range(Cn)])
            res = it.call(names["mean_metric"], [names["nRMSE"], ub, rb], {"domain_extent": Lx})
            tot = Poly()
            for b in range(2):
                tot = tot + norm_ref(lambda x: spatial_agg(x, D, Lx, 2, Fr(1, 2)), [Poly.atom(("u", f"u{b}", c, "P")) for c in range(Cn)], [Poly.atom(("u", f"v{b}", c, "P")) for c in range(Cn)], "normalized")
            ck.compare("mean-metric", f"exponax.metrics.mean_metric#{tag}", loc(names["mean_metric"]), _sc(res), tot / 2)
    ck.floor("table rows", n_names, 42)
    ck.assumptions += ["Parseval, L^D scaling, additivity and the metric axioms are mathematical consequences of these formulas with C04's scaling table; not re-decided numerically", "reference formulas: docstrings of exponax/metrics"]
    return ck.finish(
        explanation="Both aggregators, both norm functions, all 9+6+6 wrappers, correlation and mean_metric are interpreted with symbolic states, domain extent and band limits; each result is compared by normal form with the documented quadrature formula, which makes a dropped option (domain_extent, low, high, derivative_order), a wrong exponent, a wrong band edge or a wrong normalisation mode a named violation; documented invalid mode/reference combinations must raise.",
        rule_text="one program = (metric, option row, D, parity)",
        trusted=["CPython ast", "vf normal forms", "vmap semantics", "scaling arrays per C04"],
    )


def _sc(x):
    if isinstance(x, Tens):
        if x.shape == ():
            return x.data[0]
    return x
