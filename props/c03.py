"""C03 - nonlinear terms equal the alias-free projection of the documented operator (DESIGN 3, C03)."""

from __future__ import annotations

import itertools
from fractions import Fraction as Fr

from vf import alg, catalog
from vf import symops as SO
from vf.alg import Poly, as_poly
from vf.harness import Check, new_interp, N, L, DT, H_of, loc, AnalysisBroken, state_hat
from vf.interp import Obj, RepoRaise, ClassVal
from vf.tens import Tens
from specs import nonlinear as SP
from specs import common as C

PROP = "C03"
LEVEL = "translation_validation"
S = Poly.sym
F = S("f")  # dealiasing fraction, symbolic


def nonlinear_classes(it):
    base = it.module("exponax.nonlin_fun._base").env.get("BaseNonlinearFun")
    out = []
    for name in sorted(it.repo.modules):
        if ".viz" in name:
            continue
        m = it.module(name)
        for k, v in list(m.env.d.items()):
            if isinstance(v, ClassVal) and v.module is m and v.is_subclass(base) and v is not base:
                out.append(v)
    return base, out


def rows(cls, D):
    """(label, ctor kwargs (without geometry), C, spec(cx,u)->list) for dimension D; [] if not defined there"""
    n = cls.name
    b = S("b")
    if n == "ZeroNonlinearFun":
        return [("-", {"_nofraction": True, "_noderiv": True}, 1, lambda cx, u: [Poly()])]
    if n == "ConvectionNonlinearFun":
        out = []
        for sc, cons in itertools.product((False, True), repeat=2):
            Cn = 1 if sc else D
            out.append((f"single_channel={sc},conservative={cons}", {"scale": b, "single_channel": sc, "conservative": cons}, Cn, lambda cx, u, sc=sc, cons=cons: SP.convection(cx, u, b, sc, cons)))
        return out
    if n == "GradientNormNonlinearFun":
        out = []
        for zf in (False, True):
            for Cn in (1, 2):
                out.append((f"zero_mode_fix={zf},C={Cn}", {"scale": b, "zero_mode_fix": zf}, Cn, lambda cx, u, zf=zf: SP.gradient_norm(cx, u, b, zf)))
        return out
    if n == "PolynomialNonlinearFun":
        out = []
        for ln in range(2, 7):
            cs = tuple(S(f"c{i}") for i in range(ln))
            out.append((f"len={ln}", {"coefficients": cs, "_noderiv": True}, 1, lambda cx, u, cs=cs: SP.polynomial(cx, u, cs)))
        cs = tuple(S(f"c{i}") for i in range(4))
        out.append(("len=4,C=2", {"coefficients": cs, "_noderiv": True}, 2, lambda cx, u, cs=cs: SP.polynomial(cx, u, cs)))
        return out
    if n == "GeneralNonlinearFun":
        out = []
        for zf in (False, True):
            sl = (S("b0"), S("b1"), S("b2"))
            out.append((f"zero_mode_fix={zf}", {"scale_list": sl, "zero_mode_fix": zf}, 1, lambda cx, u, zf=zf, sl=sl: SP.general_nonlinear(cx, u, sl[0], sl[1], sl[2], zf)))
        return out
    if n in ("VorticityConvection2d", "VorticityConvection2dKolmogorov"):
        if D != 2:
            return []
        kw = {"convection_scale": b}
        if n.endswith("Kolmogorov"):
            kw.update({"injection_mode": S("kinj"), "injection_scale": S("gam")})
        return [("-", kw, 1, lambda cx, u: SP.vorticity_convection(cx, u, b))]
    if n in ("ProjectedConvection3d", "ProjectedConvection3dKolmogorov"):
        if D != 3:
            return []
        kw = {}
        if n.endswith("Kolmogorov"):
            kw.update({"injection_mode": S("kinj"), "injection_scale": S("gam")})
        return [("-", kw, 3, "projected")]
    if n == "Leray":
        if D == 1:
            return []
        return [("-", {"_nofraction": True}, D, "leray")]
    if n == "CahnHilliardNonlinearFun":
        return [("-", {"scale": S("s")}, 1, lambda cx, u: SP.cahn_hilliard(cx, u, S("s")))]
    if n == "GrayScottNonlinearFun":
        return [("-", {"feed_rate": S("fr"), "kill_rate": S("kr"), "_noderiv": True}, 2, lambda cx, u: SP.gray_scott(cx, u, S("fr"), S("kr")))]
    if n == "BelousovZhabotinskyNonlinearFun":
        return [("-", {"_noderiv": True}, 3, lambda cx, u: SP.belousov_zhabotinsky(cx, u))]
    raise AnalysisBroken(f"nonlinear function class {cls.qual} has no reference formula in specs/nonlinear.py")


def strip_injection(e):
    """the Kolmogorov classes add a state-independent spectrum (checked by C12): remove terms without state"""
    out = Poly()
    for m, c in e.t.items():
        if any(a[0] in ("F", "u") for a in Poly({m: alg.ONE}).all_atoms()):
            out = out + Poly({m: c})
    return out


def run(tier="quick", only_key=None):
    ck = Check(PROP, LEVEL, tier, only_key)
    ck.rule("term-form", "per output channel, the canonical pseudo-spectral form of __call__ equals the documented operator with every factor dealiased before the inverse and every product dealiased after the forward transform")
    ck.rule("mask", "BaseNonlinearFun builds the mask { |k_a| <= fraction*(N//2) - 1 for every axis } of shape (1, N.., N//2+1); no mask without a fraction")
    ck.rule("alias-free", "with each stepper's DEFAULT fraction f and the polynomial degree p of its nonlinear term, (p+1)*(f*(N//2)-1) < N for N=2m and N=2m+1, all m")
    n_rows = 0
    seen_classes = set()
    for parity in (0, 1):
        it = new_interp(ck.repo, parity=parity, stub_etdrk=True)
        base, classes = nonlinear_classes(it)
        if parity == 0:
            ck.floor("concrete nonlinear function classes", len(classes), 13)
        # ---- mask construction
        for D in (1, 2, 3):
            key = f"{base.qual}.__init__#mask#D={D},Nparity={parity}"
            o = it.call(classes[0].module.env.get(classes[0].name), [], {}) if False else None
            ob = Obj(base)
            it.call(base.find("__init__"), [ob, D, N], {"dealiasing_fraction": F})
            ref = Tens((1,) + (N,) * (D - 1) + (H_of(parity),), [C.dealias_mask(D, F, parity)])
            ck.compare("mask", key, loc(base.find("__init__")), ob.f.get("dealiasing_mask"), ref, config={"D": D, "parity": parity})
            ob2 = Obj(base)
            it.call(base.find("__init__"), [ob2, D, N], {})
            if ob2.f.get("dealiasing_mask") is None:
                ck.ok("mask", key + "#none")
            else:
                ck.fail("mask", key + "#none", loc(base.find("__init__")), "a mask is built although no fraction was given")
        for cls in classes:
            for D in (1, 2, 3):
                for label, kw, Cn, spec in rows(cls, D):
                    kw = dict(kw)
                    nofrac = kw.pop("_nofraction", False)
                    noderiv = kw.pop("_noderiv", False)
                    key = f"{cls.qual}.__call__#D={D},Nparity={parity},{label}"
                    at = loc(cls.find("__call__"))
                    Dv = C.deriv(D, L)
                    shape = (N,) * (D - 1) + (H_of(parity),)
                    if not noderiv:
                        kw["derivative_operator"] = Tens((D,) + shape, Dv)
                    if not nofrac:
                        kw["dealiasing_fraction"] = F
                    try:
                        o = it.call(cls, [D, N], kw)
                    except RepoRaise as e:
                        ck.fail("term-form", key, f"{e.file}:{getattr(e.node, 'lineno', '?')}", f"constructor raises {e.exc_name} in a documented configuration")
                        continue
                    u = state_hat(D, Cn, parity)
                    try:
                        res = it.call(o, [u])
                    except RepoRaise as e:
                        ck.fail("term-form", key, f"{e.file}:{getattr(e.node, 'lineno', '?')}", f"__call__ raises {e.exc_name} in a documented configuration")
                        continue
                    n_rows += 1
                    seen_classes.add(cls.name)
                    cx = SP.Ctx(D, parity, None if nofrac else F)
                    ulist = list(u.data)
                    code = list(res.data)
                    if cls.name.endswith("Kolmogorov"):
                        code = [strip_injection(e) for e in code]
                    if res.shape != u.shape:
                        ck.fail("term-form", key, at, f"output shape {res.shape} differs from input shape {u.shape}")
                        continue
                    if spec in ("leray", "projected"):
                        for world in ("generic", "dc"):
                            if spec == "leray":
                                ref = SP.leray(cx, ulist) if world == "generic" else ulist
                            else:
                                conv = [cx.Fd(x) for x in SP.cross([cx.Id(x) for x in ulist], [cx.Id(x) for x in SP.cross(cx.Dv, ulist)])]
                                ref = SP.leray(cx, conv) if world == "generic" else conv
                            try:
                                cw = [SO.specialize(e, world) for e in code]
                                rw = [SO.specialize(as_poly(e), world) for e in ref]
                            except alg.AlgError as ex:
                                ck.fail("term-form", key + f"#{world}", at, f"singular in the {world} world: {ex}")
                                continue
                            ck.compare("term-form", key + f"#{world}", at, cw, rw, config={"D": D, "parity": parity, "row": label, "world": world})
                    else:
                        ref = [as_poly(x) for x in spec(cx, ulist)]
                        # multipliers like the inverse Laplacian carry an arbitrary mean-mode value in the code
                        # (always multiplied by a derivative): compare in both worlds
                        if cls.name.startswith("VorticityConvection2d"):
                            ck.compare("term-form", key, at, code, ref, config={"D": D, "parity": parity, "row": label})
                        else:
                            ck.compare("term-form", key, at, code, ref, config={"D": D, "parity": parity, "row": label})
    ck.floor("configuration rows", n_rows, 90)
    ck.extra["config_rows"] = n_rows
    ck.extra["classes"] = sorted(seen_classes)

    # ---- alias-freeness with the steppers' default fractions
    it = new_interp(ck.repo, parity=0, stub_etdrk=True)
    n_alias = 0
    for pub, cls in catalog.exported_steppers(it):
        pos, kw, pos_def, posann = catalog.init_params(cls)
        if "dealiasing_fraction" not in kw:
            continue
        dims, _ = catalog.allowed_dims(it, cls, _overrides={})
        D = dims[0]
        for parity in (0, 1):
            itp = new_interp(ck.repo, parity=parity, stub_etdrk=True)
            clsp = itp.module(cls.module.name).env.get(cls.name)
            # defaults for everything that decides the degree: fraction and polynomial coefficient tuples
            keep_default = [k for k, (ann, d) in kw.items() if k == "dealiasing_fraction" or "polynomial" in k or k.endswith("difficulties") and "polynomial" in k]
            kwargs = catalog.symbolic_kwargs(clsp, skip=keep_default)
            o = catalog.construct(itp, clsp, catalog.positional_args(clsp, D), kwargs)
            nf = o.f["_integrator"].f.get("arg_nonlinear_fun")
            Cn = o.f["num_channels"]
            res = itp.call(nf, [state_hat(D, Cn, parity)])
            p = max(SP.degree_in_state(e) for e in res.data)
            mask = nf.f.get("dealiasing_mask")
            key = f"{cls.qual}#alias-free#Nparity={parity}"
            at = loc(cls.find("__init__"))
            n_alias += _alias_row(ck, key, at, p, mask, pub)
    # ---- ... and with the DEFAULT fraction of every nonlinear-function class that has one
    n_cls_default = 0
    for parity in (0, 1):
        itp = new_interp(ck.repo, parity=parity, stub_etdrk=True)
        _, classes_p = nonlinear_classes(itp)
        for cls in classes_p:
            init = cls.find("__init__")
            pos, kwp, pos_def, posann = catalog.init_params(cls)
            if "dealiasing_fraction" not in kwp or kwp["dealiasing_fraction"][1] is None:
                continue
            for D in (1, 2, 3):
                rws = rows(cls, D)
                if not rws:
                    continue
                label, kw, Cn, spec = rws[0]
                kw = dict(kw)
                kw.pop("_nofraction", None)
                if not kw.pop("_noderiv", False):
                    kw["derivative_operator"] = Tens((D,) + (N,) * (D - 1) + (H_of(parity),), C.deriv(D, L))
                o = itp.call(cls, [D, N], kw)
                res = itp.call(o, [state_hat(D, Cn, parity)])
                code = [strip_injection(e) for e in res.data] if cls.name.endswith("Kolmogorov") else list(res.data)
                pdeg = max(SP.degree_in_state(e) for e in code)
                key = f"{cls.qual}#alias-free-default#D={D},Nparity={parity}"
                n_cls_default += _alias_row(ck, key, loc(init), pdeg, o.f.get("dealiasing_mask"), cls.name)
                break
    ck.floor("nonlinear-function classes with a default fraction (x parity)", n_cls_default, 4)
    ck.floor("alias-free rows", n_alias, 40)
    ck.assumptions += [
        "ifft/fft are exact inverse linear maps (library); a product of p band-limited factors has modes up to p*K",
        "the 2-D vorticity convection is compared with the Jacobian form stated in the code comments (docstring formula ambiguous, DESIGN 7)",
        "numeric agreement with a fine-grid oracle is NOT decided",
    ]
    return ck.finish(
        explanation="Every concrete BaseNonlinearFun subclass (discovered from the package, incl. the reaction nonlinearities) is interpreted for D in {1,2,3} where defined, N even/odd, every flag row and symbolic scales/fraction with a symbolic spectrum. Inverse transforms become linear atoms I[multiplier, spectrum] (+ mean part), forward transforms F[product]; the per-channel normal form must equal the documented operator, including the dealiasing mask before every inverse and after every forward transform. The mask predicate is compared with |k|<=f*(N//2)-1 and the alias-freeness inequality is decided exactly from each stepper's default fraction and the computed degree of its term.",
        rule_text="one program = (nonlinear class, D, parity, flag row[, world]) or (stepper, parity) for alias-freeness; distinct = distinct canonical forms",
        trusted=["CPython ast", "vf normal forms", "specs/nonlinear.py", "rfftn/irfftn are inverse linear maps"],
    )


def _alias_row(ck, key, at, p, mask, pub):
    if mask is None:
        ck.fail("alias-free", key, at, "nonlinear term without dealiasing mask")
        return 0
    cut = _cutoff_of(mask.data[0])
    if cut is None:
        ck.fail("alias-free", key, at, f"mask is not an axis-wise low-pass: {mask.data[0]}")
        return 0
    expr = (p + 1) * cut - N  # must be < 0 for all N of this parity
    lead, const = _linear_in_N(expr)
    parity = 1 if "Nparity=1" in key else 0
    ok = lead is not None and (lead < 0 or (lead == 0 and const < 0)) and (lead == 0 or const <= 0 or _small_N_ok(lead, const, parity))
    if ok:
        ck.ok("alias-free", key, form=(p, str(cut)))
        ck.sample({"rule": "alias-free", "class": pub, "degree": p, "cutoff": str(cut), "(p+1)*cutoff-N": str(expr)})
    else:
        ck.fail("alias-free", key, at, f"degree-{p} term with default cutoff {cut}: (p+1)*cutoff - N = {expr} is not negative for all N", code=str(expr))
    return 1


def _cutoff_of(maskpoly):
    cuts = set()
    if len(maskpoly.t) != 1:
        return None
    ((m, c),) = maskpoly.t.items()
    for a, e in m:
        if a[0] == "ind" and a[1] == "le":
            cuts.add(a[3])
        else:
            return None
    if len(cuts) != 1:
        return None
    return cuts.pop()


def _linear_in_N(expr):
    lead = Fr(0)
    const = Fr(0)
    for m, c in expr.t.items():
        if c.im != 0:
            return None, None
        if m == ():
            const = c.re
        elif m == ((("s", "N"), 1),):
            lead = c.re
        else:
            return None, None
    return lead, const


def _small_N_ok(lead, const, parity):
    # lead < 0, const > 0: holds once N > const/(-lead); require that for N >= 3
    return Fr(const) / (-lead) < 3
