"""C07 - steppers are differentiable with correct derivatives (DESIGN 3, C07): NECESSARY structural
conditions only.  Agreement of JAX's derivatives with finite differences is the correctness of JAX AD
and is not decided."""

from __future__ import annotations

import ast
import os

from vf import alg, catalog, astrules
from vf import symops as SO
from vf.alg import Poly, as_poly
from vf.harness import Check, new_interp, N, L, DT, M, R, H_of, loc, AnalysisBroken, state_phys, state_hat, VERIF
from vf.interp import RepoRaise, Obj, Term, UFun
from vf.tens import Tens

PROP = "C07"
LEVEL = "other"
S = Poly.sym
GEOMETRY = {"k", "num", "idx"}
GEOMETRY_SYMS = {"L", "N", "pi"}


def geometry_only(q):
    for a in q.all_atoms():
        if a[0] in GEOMETRY or a[0] in ("P", "R", "abs", "ind"):
            continue
        if a[0] == "s" and a[1] in GEOMETRY_SYMS:
            continue
        return False
    return True


def _provably_positive(e):
    """c + (sum of terms known to be >= 0) with c > 0: a positive number plus squares / absolute values"""
    const = e.t.get((), None)
    if const is None or const.im != 0 or const.re <= 0:
        return False
    for m, c in e.t.items():
        if m == ():
            continue
        if c.im != 0 or c.re < 0:
            return False
        for a, x in m:
            if a[0] == "abs" or (a[0] == "s" and a[1] in alg.POSITIVE):
                continue
            if x % 2 == 0 and alg.atom_is_real(a):
                continue
            return False
    return True


def singular_atoms(e):
    out = []
    for m in e.t:
        for a, x in m:
            if a[0] == "P" and x < 0:
                out.append((a, x, "1/(...)"))
            elif a[0] == "R":
                out.append((a, x, "root"))
            elif a[0] == "k" and x < 0:
                out.append((a, x, "1/k"))
            elif a[0] == "pow":
                out.append((a, x, "power"))
            elif a[0] == "fn" and a[1] in ("log", "log10"):
                out.append((a, x, "log"))
    return out


def singular_terms(e):
    """(singular atom, exponent, kind, rest of the monomial as Poly) for every term with a singular factor"""
    out = []
    for m, c in e.t.items():
        for a, x in m:
            kind = None
            if a[0] == "P" and x < 0:
                kind = "1/(...)"
            elif a[0] == "R":
                kind = "root"
            elif a[0] == "k" and x < 0:
                kind = "1/k"
            elif a[0] == "pow":
                kind = "power"
            elif a[0] == "fn" and a[1] in ("log", "log10"):
                kind = "log"
            if kind:
                rest = Poly({tuple((b, y) for b, y in m if b != a): alg.ONE})
                out.append((a, x, kind, rest))
    return out


def run(tier="quick", only_key=None):
    ck = Check(PROP, LEVEL, tier, only_key)
    ck.rule("ad-hostile", "no stop_gradient, piecewise-constant primitive, integer cast, numpy call, python coercion, callback, while_loop or custom derivative rule in any function reachable from the public stepper API (constructors, __call__/step/step_fourier, nonlinear terms, integrators, rollout/repeat)")
    ck.rule("fixture", "the banned-construct rule matches its positive fixture")
    ck.rule("where-guard", "every singular expression (1/e, e**-k, sqrt, power) inside a jnp.where branch on a stepper path depends on geometry only (wavenumbers, L, N) or divides by an already guarded value: the NaN cotangent of the masked branch never reaches a differentiated input")
    ck.rule("smooth-primitives", "no sqrt / norm / fractional or negative power / log / division whose argument depends on the state (or another differentiated input) and can vanish: d sqrt(x)/dx is unbounded at x = 0, so jvp/vjp are NaN at constant or zero states although the value is finite")
    ck.rule("linearity", "the order-0 steppers' step_fourier is homogeneous of degree exactly 1 in the state: the Jacobian is the map")
    ck.rule("loops", "every loop of the trajectory utilities / integrators is a jax.lax.scan (reverse-differentiable); no while_loop / fori_loop in the package")
    # ---- positive fixture
    fx = ast.parse(open(os.path.join(VERIF, "selftest", "fixtures", "banned_constructs.py")).read())
    hits = {c.split("(")[0].split(".")[-1].lstrip("@") for _, c, _ in astrules.ad_banned(fx)}
    need = {"stop_gradient", "round", "sign", "floor", "argmax", "astype", "float", "while_loop", "pure_callback", "custom_jvp", "sin"}
    if need <= hits:
        ck.ok("fixture", "selftest/fixtures/banned_constructs.py")
    else:
        raise AnalysisBroken(f"banned-construct rule no longer matches its fixture: missing {sorted(need - hits)}")
    # ---- reachable functions + where log + linearity
    it = new_interp(ck.repo, parity=0, stub_etdrk="symbolic")
    it.ctx.opaque_nonlinear = True
    it.ctx.call_log = set()
    it.ctx.where_log = []
    it.ctx.singular_log = []
    steppers = catalog.exported_steppers(it)
    n_lin = 0
    for pub, cls in steppers:
        dims, _ = catalog.allowed_dims(it, cls)
        for D in dims:
            for fl in (list(catalog.flag_rows(cls)) or [{}]):
                o = catalog.build(it, cls, D, **fl)
                integ = o.f["_integrator"]
                uh = state_hat(D, o.f["num_channels"], 0)
                res = it.call(it.getattr(o, "step_fourier"), [uh])
                nf = integ.f.get("real_nonlinear_fun")
                if nf is not None:
                    it.call(nf, [uh])
                if D == dims[0] and not fl or D == dims[0] and fl == (list(catalog.flag_rows(cls)) or [{}])[0]:
                    it.call(o, [state_phys(D, o.f["num_channels"])])
                if integ.cls.name == "ETDRK0":
                    key = f"{cls.qual}#linear#D={D},{fl}"
                    bad = None
                    for e in res.data:
                        for m, c in e.t.items():
                            deg = 0
                            for a, x in m:
                                if a[0] == "u" or (a[0] == "dc" and a[1][0] == "u"):
                                    deg += x
                                elif any(b[0] == "u" for b in Poly.atom(a).all_atoms()):
                                    deg += 2  # the state enters through a non-linear wrapper (abs, power, ...)
                            if deg != 1:
                                bad = f"term {alg.fmt(Poly({m: c}))[:200]} is not of degree 1 in the state"
                    n_lin += 1
                    if bad:
                        ck.fail("linearity", key, loc(cls.find("step_fourier") or cls.find("__init__")), f"linear stepper is not a linear map of the state: {bad}")
                    else:
                        ck.ok("linearity", key)
    ck.floor("linear rows", n_lin, 30)
    # integrators, wrappers, utilities
    it_e = new_interp(ck.repo, parity=0, stub_etdrk=False)
    it_e.ctx.call_log = set()
    it_e.ctx.where_log = []
    it_e.ctx.singular_log = []
    et = it_e.module("exponax.etdrk").env
    linop = Tens((1, N, H_of(0)), [Poly.atom(("s", "lam"))])
    for n in range(5):
        o = it_e.call(et.get(f"ETDRK{n}"), [DT, linop] if n == 0 else [DT, linop, UFun("Nl")], {} if n == 0 else {"num_circle_points": M, "circle_radius": R})
        it_e.call(it_e.getattr(o, "step_fourier"), [state_hat(2, 1, 0)])
    ut = it_e.module("exponax._utils").env
    Sf = UFun("S", mode="term")
    it_e.call(it_e.call(ut.get("rollout"), [Sf, S("n")], {"include_init": True}), [Term("u0")])
    it_e.call(it_e.call(ut.get("rollout"), [Sf, S("n")], {"takes_aux": True}), [Term("u0"), Term("aux")])
    it_e.call(it_e.call(ut.get("repeat"), [Sf, S("n")]), [Term("u0")])
    Po = it_e.module("exponax._poisson").env.get("Poisson")
    for D in (1, 2, 3):
        p = it_e.call(Po, [D, L, N])
        it_e.call(p, [state_phys(D, 1)])
    FS = it_e.module("exponax._forced_stepper").env.get("ForcedStepper")
    Diff = it_e.module("exponax.stepper").env.get("Diffusion")
    inner = it_e.call(Diff, [1, L, N, DT], {"diffusivity": S("nu")})
    it_e.call(it_e.call(FS, [inner]), [state_phys(1, 1), state_phys(1, 1, "f")])
    reached = set(it.ctx.call_log) | set(it_e.ctx.call_log)
    ck.floor("functions reached", len(reached), 90)
    # ---- R7.1 on reached functions
    n_scanned = 0
    for mod in ck.repo.modules.values():
        if ".viz" in mod.name:
            continue
        for qual, node in astrules.qual_functions(mod.tree):
            full = f"{mod.name}.{qual}"
            if full not in reached:
                continue
            n_scanned += 1
            body_only = ast.Module(body=node.body, type_ignores=[])
            for ln, construct, why in astrules.ad_banned(body_only, coercions=False):
                ck.fail("ad-hostile", f"{full}#{construct}", f"{mod.path}:{ln}", f"{construct} on a differentiated path ({why})")
            for d in node.decorator_list:
                if ast.unparse(d).split(".")[-1].split("(")[0] in ("custom_jvp", "custom_vjp"):
                    ck.fail("ad-hostile", f"{full}#@{ast.unparse(d)}", f"{mod.path}:{node.lineno}", "hand-written derivative rule on a stepper path")
            ck.ok("ad-hostile", full)
    ck.floor("functions scanned", n_scanned, 90)
    # float(x) / int(x) / x.item(): decided on values - a coercion of a static size or order is harmless, a coercion of
    # a value that depends on the state, dt or a coefficient leaves the differentiated computation
    from props.c06 import traced_atoms

    seen_co = set()
    for ev in list(it.ctx.events) + list(it_e.ctx.events):
        if ev["kind"] != "coerce-array-to-python" or not traced_atoms(ev):
            continue
        keyc = f"{ev['fn']}#coerce#{ev['src'][:60]}"
        if keyc in seen_co:
            continue
        seen_co.add(keyc)
        ck.fail("ad-hostile", keyc, f"{ev['file']}:{ev['line']}", f"`{ev['src'][:100]}`: python coercion of a value that depends on a differentiated input ({', '.join(traced_atoms(ev))[:80]})")
    ck.extra["functions_scanned"] = n_scanned
    # ---- R7.2 where guards
    n_where = 0
    seen = set()
    for w in it.ctx.where_log + it_e.ctx.where_log:
        site = (w["file"], w["line"])
        for branch in ("a", "b"):
            for e in w[branch].data:
                for atom, x, kind, term in singular_terms(e):
                    q = atom[1] if atom[0] in ("P", "R", "pow") else Poly.atom(atom)
                    q = q * term  # the whole term carrying the singular factor must be geometry-only
                    key = f"{w['fn']}#where#{w['line'] and w['src'][:80]}#{kind}"
                    if key in seen:
                        continue
                    seen.add(key)
                    n_where += 1
                    guarded = any(a[0] == "ind" for a in q.all_atoms())
                    if geometry_only(q) or guarded:
                        ck.ok("where-guard", key, form=(str(q), kind))
                        ck.sample({"rule": "where-guard", "site": f"{w['file']}:{w['line']}", "singular": f"{kind} of {q}", "verdict": "geometry only" if geometry_only(q) else "guarded divisor"})
                    else:
                        ck.fail("where-guard", key, f"{w['file']}:{w['line']}", f"`{w['src'][:120]}`: the masked branch contains {kind} of {q}, which depends on a differentiated input: its NaN/inf cotangent reaches that input's gradient (use the guard-before-divide idiom)")
    ck.floor("guarded where sites", n_where, 4)
    # ---- R7.6 singular primitives applied to differentiated values
    n_sing = n_sing_geo = 0
    seen_s = set()
    for w in it.ctx.singular_log + it_e.ctx.singular_log:
        key = f"{w['fn']}#{w['kind']}#{w['src'][:80]}"
        if key in seen_s:
            continue
        seen_s.add(key)
        offending = None
        for e in w["arg"].data:
            e = as_poly(e)
            if geometry_only(e):
                continue
            if _provably_positive(e):
                continue
            offending = e
            break
        n_sing += 1
        if offending is None:
            n_sing_geo += 1
            ck.ok("smooth-primitives", key)
            ck.sample({"rule": "smooth-primitives", "site": f"{w['file']}:{w['line']}", "kind": w["kind"], "verdict": "argument depends on geometry only / is bounded away from zero"})
        else:
            ck.fail("smooth-primitives", key, f"{w['file']}:{w['line']}", f"`{w['src'][:120]}`: {w['kind']} of {alg.fmt(offending)[:160]}, which depends on a differentiated input and vanishes e.g. at a constant state: the derivative is unbounded there")
    ck.floor("singular-primitive sites inspected", n_sing, 3)
    # ---- R7.4 loops
    n_scan = 0
    for mod in ck.repo.modules.values():
        if ".viz" in mod.name:
            continue
        for ln, f, node in astrules.calls_named(mod.tree, {"scan", "while_loop", "fori_loop"}):
            key = f"{mod.path}#{f}#L{ln}"
            if f.split(".")[-1] == "scan" and f in ("jax.lax.scan", "lax.scan"):
                n_scan += 1
                ck.ok("loops", f"{mod.name}#{f}#{n_scan}")
            else:
                ck.fail("loops", f"{mod.name}#{f}", f"{mod.path}:{ln}", f"{f}: loop primitive that is not reverse-differentiable / not the documented scan")
    ck.floor("scan call sites", n_scan, 11)
    ck.assumptions += ["values of jvp/vjp vs finite differences, the adjoint identity and finiteness of derivatives are the correctness of JAX AD on jnp primitives: NOT decided", "a wrong but smooth formula is the business of C01-C03, not of this check"]
    return ck.finish(
        explanation="Necessary structural conditions for differentiability: (1) the set of functions reachable from every exported stepper's constructor, step, nonlinear term, the integrators, wrappers and rollout/repeat is computed by abstract interpretation and scanned for AD-hostile constructs (rule kept alive by a positive fixture); (2) every jnp.where executed on these paths is inspected: singular sub-expressions of either branch must depend on geometry only or divide by an already guarded value; (3) the canonical step_fourier of every order-0 stepper is homogeneous of degree 1 in the state; (4) all loops are jax.lax.scan.",
        rule_text="instances = reachable functions, where-sites with singular branches, linear stepper rows, scan call sites",
        trusted=["CPython ast", "JAX AD rules of jnp primitives"],
    )
