"""C09 - conserved quantities and equilibria survive the discretisation (DESIGN 3, C09)."""

from __future__ import annotations

import itertools
from fractions import Fraction as Fr

from vf import alg, catalog
from vf import symops as SO
from vf.alg import Poly, as_poly
from vf.harness import Check, new_interp, N, L, DT, H_of, loc, AnalysisBroken, state_hat
from vf.interp import Obj, RepoRaise
from vf.tens import Tens
from specs import etdrk as SPE

PROP = "C09"
LEVEL = "translation_validation"
S = Poly.sym

# steppers whose mean conservation the property claims, with the rows (flag settings) in which the
# nonlinear term is in syntactic divergence form (DESIGN 3 C09(a)); the other rows of the same
# classes need discrete integration by parts and are reported as "undecided", never as violations
LINEAR_MEAN = ["Advection", "Diffusion", "AdvectionDiffusion", "Dispersion", "HyperDiffusion"]
DIVERGENCE_FORM = {
    "Burgers": [{"conservative": True, "single_channel": False}, {"conservative": True, "single_channel": True}],
    "KortewegDeVries": [{"conservative": True, "single_channel": False}, {"conservative": True, "single_channel": True}],
    "KuramotoSivashinskyConservative": [{"conservative": True, "single_channel": False}, {"conservative": True, "single_channel": True}],
    "KuramotoSivashinsky": [{}],
    "CahnHilliard": [{}],
}
NOT_DIVERGENCE_FORM = {
    "Burgers": [{"conservative": False, "single_channel": True}, {"conservative": False, "single_channel": False}],
    "KortewegDeVries": [{"conservative": False, "single_channel": True}],
    "KuramotoSivashinskyConservative": [{"conservative": False, "single_channel": True}],
    "NavierStokesVorticity": [{"drag": 0}],
    "NavierStokesVelocity": [{"drag": 0}],
}


def equilibria(name, D, Cn):
    """documented constant equilibria: list of (label, ctor overrides, values per channel, side relation)"""
    anyc = [S(f"ustar{c}") for c in range(Cn)]
    if name in ("Burgers", "KortewegDeVries", "KuramotoSivashinskyConservative", "KuramotoSivashinsky", "CahnHilliard"):
        return [("any constant", {}, anyc)]
    if name in ("NavierStokesVorticity", "NavierStokesVelocity", "KolmogorovFlowVelocity", "KolmogorovFlowVorticity"):
        return [("any constant, no drag", {"drag": 0}, anyc)] if not name.startswith("Kolmogorov") else []
    if name == "FisherKPP":
        return [("u=0", {}, [0]), ("u=1", {}, [1])]
    if name == "AllenCahn":
        return [("u=0", {}, [0]), ("u^2=-c1/c3", {}, "allen-cahn")]
    if name == "GrayScott":
        return [("(1,0)", {}, [1, 0])]
    if name == "SwiftHohenberg":
        return [("u=0 with g(0)=0", {"polynomial_coefficients": (0, S("g1"), S("g2"), S("g3"))}, [0])]
    return []


def run(tier="quick", only_key=None):
    ck = Check(PROP, LEVEL, tier, only_key)
    ck.rule("linear-mean", "the linear symbol vanishes at k = 0 (mean mode is not damped, advected or amplified)")
    ck.rule("nonlinear-mean", "the mean-mode component of the nonlinear term is identically zero for every state (divergence-form rows)")
    ck.rule("equilibrium", "documented constant equilibria satisfy L(0) u* + N(u*) = 0 identically in the remaining parameters")
    ck.rule("telescoping", "the ETDRK-p update maps u* to itself whenever N == -lambda u* on all stages (closed forms, exact series)")
    undecided = []
    rows = 0
    for parity in (0, 1):
        it = new_interp(ck.repo, parity=parity, stub_etdrk=True)
        steppers = dict((cls.name, cls) for _, cls in catalog.exported_steppers(it))
        for name in LINEAR_MEAN + list(DIVERGENCE_FORM) + ["NavierStokesVorticity", "NavierStokesVelocity", "FisherKPP", "AllenCahn", "GrayScott", "SwiftHohenberg"]:
            if name not in steppers:
                raise AnalysisBroken(f"stepper {name} named by the property is no longer exported")
        for name, cls in steppers.items():
            dims, _ = catalog.allowed_dims(it, cls)
            for D in dims:
                if name in LINEAR_MEAN:
                    flag_rows = list(catalog.flag_rows(cls)) or [{}]
                    for fl in flag_rows:
                        f = catalog.stepper_forms(it, cls, D, parity, **fl)
                        key = f"{cls.qual}#linear-mean#D={D},Nparity={parity},{fl}"
                        dc = [SO.specialize(e, "dc") for e in f["L"].data]
                        ck.compare("linear-mean", key, loc(cls.find("_build_linear_operator")), dc, [Poly()] * len(dc), what="linear symbol does not vanish at the mean mode")
                        rows += 1
                for fl in DIVERGENCE_FORM.get(name, []):
                    f = catalog.stepper_forms(it, cls, D, parity, **fl)
                    key = f"{cls.qual}#mean#D={D},Nparity={parity},{fl}"
                    dcl = [SO.specialize(e, "dc") for e in f["L"].data]
                    ck.compare("linear-mean", key + "#L", loc(cls.find("_build_linear_operator")), dcl, [Poly()] * len(dcl), what="linear symbol does not vanish at the mean mode")
                    dcn = [SO.assume_mean_mode_retained(SO.dc_component(e, D)) for e in f["N"].data]
                    ck.compare("nonlinear-mean", key + "#N", loc(f["nf"].cls.find("__call__")), dcn, [Poly()] * len(dcn), what="mean-mode component of the nonlinear term is not identically zero")
                    rows += 1
                for fl in NOT_DIVERGENCE_FORM.get(name, []):
                    if fl.get("single_channel") is False and fl.get("conservative") is False and D != 1:
                        continue
                    if parity == 0:
                        undecided.append(f"{name} D={D} {fl}: mean conservation needs discrete integration by parts (not in divergence form) - undecided")
                # ---- equilibria
                Cn = catalog.build(it, cls, D).f.get("num_channels")
                for label, ov, vals in equilibria(name, D, Cn):
                    f = catalog.stepper_forms(it, cls, D, parity, **ov)
                    key = f"{cls.qual}#equilibrium#D={D},Nparity={parity},{label}"
                    at = loc(f["nf"].cls.find("__call__"))
                    if vals == "allen-cahn":
                        s = S("ustar")
                        vals_ = [s]
                    else:
                        vals_ = vals
                    ND = N**D
                    resid = []
                    Ldc = [SO.specialize(e, "dc") for e in f["L"].data]
                    for c in range(Cn):
                        n_c = SO.assume_mean_mode_retained(SO.specialize(SO.constant_state(f["N"].data[c], vals_), "dc"))
                        lam0 = Ldc[c if len(Ldc) > 1 else 0]
                        resid.append(lam0 * as_poly(vals_[c]) * ND + n_c)
                    if vals == "allen-cahn":
                        c1, c3 = S("first_order_coefficient"), S("third_order_coefficient")
                        mask0 = None
                        ref = [_with_same_prefactor(resid[0], c3 * s * (s * s + c1 / c3))]
                        ck.compare("equilibrium", key, at, resid, ref, what="L(0)u + N(u) does not factor as c3 u (u^2 + c1/c3)")
                    else:
                        ck.compare("equilibrium", key, at, resid, [Poly()] * Cn, what="documented equilibrium is not a root of L(0) u + N(u)")
                    rows += 1
    # ---- telescoping on the closed forms (exact series in z)
    for name, ok, _ in _telescoping():
        if ok:
            ck.ok("telescoping", name)
        else:
            ck.fail("telescoping", name, "specs/etdrk.py", "ETDRK weights do not telescope on an equilibrium")
    ck.floor("rows", rows, 120)
    ck.extra["undecided_rows"] = undecided
    for u in undecided:
        ck.notes.append(u)
    ck.assumptions += [
        "the code's stage formulas and coefficients equal the closed forms used in the telescoping argument (decided by C02)",
        "the dealiasing band contains the mean mode (fraction*(N//2) >= 1)",
        "energy / enstrophy neutrality and mean conservation of the non-divergence-form rows are NOT decided (discrete integration by parts)",
    ]
    return ck.finish(
        explanation="Canonical linear symbols and nonlinear terms of the steppers named by the property are evaluated in the mean-mode world (k=0, F[q] -> sum of q over the grid): the symbol must vanish and the nonlinear mean component must be the zero polynomial for the divergence-form rows. Documented constant equilibria are substituted as constant states (mean-free inverse transforms vanish, mean parts become u*) and must annihilate L(0)u+N(u) identically; the ETDRK weights' telescoping is checked on the closed forms with exact series.",
        rule_text="one program = (stepper, D, parity, flag row) for means, (stepper, D, parity, equilibrium) for fixed points; distinct = distinct canonical forms",
        trusted=["CPython ast", "vf normal forms", "specs/etdrk.py closed forms (self-validated)"],
    )


def _with_same_prefactor(resid, poly):
    """the residual carries N^D and the mask value at k=0 as common factors: attach them to the reference"""
    if resid.is_zero():
        return resid
    N_ = Poly.sym("N")
    # common indicator / N factors of every term of the residual
    monos = list(resid.t)
    common = None
    for m in monos:
        d = {a: e for a, e in m if a[0] == "ind" or a == ("s", "N")}
        common = d if common is None else {a: e for a, e in common.items() if d.get(a) == e}
    pref = Poly({tuple(sorted(common.items(), key=lambda t: alg.atom_sortkey(t[0]))): alg.ONE}) if common else Poly.const(1)
    return pref * poly


def _telescoping():
    out = []
    Ser = SPE.Ser
    old = Ser.DEG
    Ser.DEG = old + 4
    try:
        z = Ser.z()
        ez = SPE._exp_series(z)
        ezh = SPE._exp_series(z * Fr(1, 2))
        for order in (1, 2, 3, 4):
            c = {int(k.split("_")[-1]): f(z, ez, ezh) for k, f in SPE.COEFFICIENTS[f"ETDRK{order}"].items()}
            # u* = 1, dt*N(v) = -z for every stage value v (N == -lambda u* and dt*lambda = z)
            upd = SPE.stages(order, Ser.const(1), ez, ezh, c, lambda v: -1 * z)
            out.append((f"ETDRK{order} maps an equilibrium to itself", (upd - 1).low(old) == {}, ""))
    finally:
        Ser.DEG = old
    return out
