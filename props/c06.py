"""C06 - results are invariant under jit, vmap and scan composition (DESIGN 3, C06).

Decides the necessary structural condition: the Python code that runs at trace time takes the same
decisions whether its inputs are concrete or tracers.  Scenario S2: construction with every float
parameter a tracer (eqx.filter_vmap over a parameter grid); scenario S1: calls with a traced state.
"""

from __future__ import annotations

import ast
import itertools

from vf import alg, catalog
from vf.alg import Poly, as_poly
from vf.harness import Check, new_interp, N, L, DT, M, R, H_of, loc, AnalysisBroken, state_phys, state_hat
from vf.interp import RepoRaise, Obj, Term, UFun, UndecidableBranch, AnalysisError
from vf.tens import Tens, ShapeError, Unsupported

PROP = "C06"
LEVEL = "other"
S = Poly.sym

BAD = ("branch-on-symbolic", "truth-of-array", "coerce-array-to-python", "symbolic-equality-in-container", "attr-assign-outside-init", "global-stmt")
# size-like symbols: static python ints under every transformation
STATIC_SYMS = {"s:N", "s:M", "s:n", "s:kinj", "s:pi"}


def traced_atoms(ev):
    return [a for a in ev.get("atoms", []) if a not in STATIC_SYMS and not a.startswith(("num:", "k:", "k1:", "idx:", "ind:", "P:", "R:", "abs:"))]


def collect(ck, it, scenario, entry, at_default):
    """turn the interpreter's events since the last clear into findings"""
    n = 0
    for ev in it.ctx.events:
        if ev["kind"] not in BAD:
            continue
        if ev["kind"] in ("branch-on-symbolic", "truth-of-array", "isinstance-float-on-symbolic", "symbolic-equality-in-container", "coerce-array-to-python"):
            tr = traced_atoms(ev)
            if not tr:
                continue  # depends on static sizes only
        n += 1
        what = {
            "branch-on-symbolic": "Python branch on a traced value: TracerBoolConversionError under jit / vmap / filter_vmap",
            "truth-of-array": "truth value of a traced array in a Python condition",
            "coerce-array-to-python": "float()/int()/bool()/.item() of a traced value",
            "isinstance-float-on-symbolic": "isinstance(x, float) dispatch on a parameter that is a tracer under eqx.filter_vmap: the scalar branch is skipped and construction fails although the eager loop works",
            "symbolic-equality-in-container": "Python == on a container holding a traced value",
            "attr-assign-outside-init": "attribute assignment outside __init__ (shared mutable state between batch members)",
            "global-stmt": "global / nonlocal statement on a traced path",
        }[ev["kind"]]
        key = f"{ev['fn']}#{ev['kind']}#{ev['src']}"
        ck.fail("trace-safety", key, f"{ev['file']}:{ev['line']}", f"[{scenario}] `{ev['src']}`: {what} (reached from {entry})")
    return n


def _decide(cond, node, file, fn):
    """C06 keeps going after a branch on a traced value (the event is the finding): take the generic
    outcome, else the `False` branch"""
    from vf.harness import generic_decide

    r = generic_decide(cond, node, file, fn)
    return False if r is None else r


def _special_value(cond):
    """(parameter name, constant) if the branch condition is `param == constant` (or its negation) for a scalar symbol"""
    for q in (cond, 1 - cond):
        if len(q.t) != 1:
            continue
        ((m, c),) = q.t.items()
        if c == alg.ONE and len(m) == 1 and m[0][0][0] == "ind" and m[0][0][1] == "eq":
            d = m[0][0][2] - m[0][0][3]
            syms = [a for a in d.atoms() if a[0] == "s"]
            if len(syms) != 1 or len(d.all_atoms()) != 1:
                return None
            a = syms[0]
            lin = d.t.get(((a, 1),))
            const = d.t.get((), alg.GQ(0))
            if lin is None or len(d.t) > 2 or lin.im != 0 or const.im != 0:
                return None
            v = -const.re / lin.re
            return (a[1], int(v) if v.denominator == 1 else v)
    return None


def _subs(x, sub):
    if x is None:
        return None
    if isinstance(x, Tens):
        return x.map(lambda e: alg.subs(e, sub))
    return alg.subs(as_poly(x), sub)


def _p(x):
    if isinstance(x, Tens):
        return x.data[0] if x.shape == () else x
    return as_poly(x)


def run(tier="quick", only_key=None):
    ck = Check(PROP, LEVEL, tier, only_key)
    ck.rule("trace-safety", "no Python-level control flow, coercion, isinstance(float) dispatch, container equality or attribute mutation on a value that is a tracer under jit / vmap / scan / filter_vmap, on every path reachable from the public stepper API")
    ck.rule("special-value", "a constructor branch taken only for one concrete value of a float parameter (`if isinstance(x, (int, float)) and x == c:`) must build the stepper the general branch builds at x = c: under jit / filter_vmap the parameter is a tracer, the general branch runs, and the results have to coincide")
    ck.rule("entry-covered", "the entry point was interpreted to completion in this scenario (no finding on its path)")
    entries = 0
    reached = set()
    branches = set()
    seen_fail_keys = set()

    def run_entry(it, scenario, name, thunk, at):
        nonlocal entries
        it.ctx.events.clear()
        it.ctx.event_objs.clear()
        try:
            thunk()
        except RepoRaise as e:
            # construction that works eagerly must also work with tracers
            fnq = f"{e.file}:{getattr(e.node, 'lineno', '?')}"
            ck.fail("trace-safety", f"{name.split('(')[0]}#raises#{e.exc_name}", fnq, f"[{scenario}] {name} raises {e.exc_name} at {fnq} when its float parameters are tracers, although the eager construction works (value-dependent Python dispatch)")
        except (AnalysisError,) as e:
            if "einsum" in str(e) or "ShapeError" in str(e):
                ck.fail("trace-safety", f"{name.split('(')[0]}#raises#shape", e.where(), f"[{scenario}] {name} fails when its float parameters are tracers: {e.msg[:200]}")
            else:
                raise
        except ShapeError as e:
            where = getattr(e, "_loc", None)
            ck.fail("trace-safety", f"{name.split(chr(40))[0]}#shape", f"{where[0]}:{where[1]}" if where else at, f"[{scenario}] {name}: {e}")
        entries += 1
        before = len(ck.violations) + len(ck.known_hits)
        collect(ck, it, scenario, name, at)
        if len(ck.violations) + len(ck.known_hits) == before:
            ck.ok("entry-covered", f"{scenario}#{name}")
        reached.update(it.ctx.call_log or ())
        branches.update(it.ctx.branch_log)

    # ------------------------------------------------------------------ S2: construction
    for parity in (0,):
        it = new_interp(ck.repo, parity=parity, stub_etdrk=True, decide=_decide)
        it.ctx.call_log = set()
        steppers = catalog.exported_steppers(it)
        ck.floor("exported steppers", len(steppers), 30)
        for pub, cls in steppers:
            dims, _ = catalog.allowed_dims(it, cls)
            for D in dims:
                for fl in (list(catalog.flag_rows(cls)) or [{}]):
                    name = f"{pub}(D={D},{fl})"

                    def thunk():
                        traced = catalog.stepper_forms(it, cls, D, 0, _traced=True, **fl)
                        evs = list(it.ctx.events)
                        special = []
                        base_decide = it.ctx.decide

                        regions = []

                        def rec(cond, node, file, fn):
                            sv = _special_value(cond)
                            if sv is not None:
                                special.append(sv + (file, getattr(node, "lineno", None)))
                            elif catalog.param_region(cond) is not None:
                                regions.append((cond, file, getattr(node, "lineno", None)))
                            return base_decide(cond, node, file, fn)

                        it.ctx.decide = rec
                        try:
                            eager = catalog.stepper_forms(it, cls, D, 0, **fl)
                        finally:
                            it.ctx.decide = base_decide
                        pos_, kwp, _, _ = catalog.init_params(cls)
                        for pname, cval, sfile, sline in sorted(set(special), key=repr):
                            if pname not in kwp:
                                continue
                            spec = catalog.stepper_forms(it, cls, D, 0, **dict(fl, **{pname: cval}))
                            sub = {("s", pname): Poly.const(cval)}
                            gen_at = (eager["C"], _subs(eager["L"], sub), None if eager["N"] is None else [alg.subs(e, sub) for e in eager["N"].data], eager["integrator"])
                            got = (spec["C"], spec["L"], None if spec["N"] is None else list(spec["N"].data), spec["integrator"])
                            from vf.harness import _same

                            d2 = [n_ for n_, x, y in zip(("num_channels", "linear symbol", "nonlinear term", "integrator"), got, gen_at) if not ((x is None and y is None) or _same(x, y))]
                            skey = f"{cls.qual}#special-value#{pname}={cval},D={D},{fl}"
                            if d2:
                                ck.fail("special-value", skey, f"{sfile}:{sline}", f"{pub}({pname}={cval}) takes a Python-level special-case branch that builds a different stepper ({', '.join(d2)} differ) than the general branch evaluated at {pname} = {cval}: the eager result and the result under jit / filter_vmap (traced {pname}) disagree")
                            else:
                                ck.ok("special-value", skey)
                        for rcond, rfile, rline in regions[:2]:
                            # a Python branch on the value RANGE of a float parameter: eager runs take it by value, a
                            # traced parameter cannot (at best an isinstance guard sends it down one side): both
                            # sides have to build the same stepper
                            def forced(cond, node, file, fn, _k=rcond):
                                if cond == _k:
                                    return True
                                if cond == 1 - _k:
                                    return False
                                return base_decide(cond, node, file, fn)

                            it.ctx.decide = forced
                            try:
                                other = catalog.stepper_forms(it, cls, D, 0, **fl)
                            except RepoRaise as r_:
                                if r_.exc_name != "ValueError":
                                    raise
                                # a range check that rejects one side with ValueError is input validation, not dispatch
                                ck.ok("special-value", f"{cls.qual}#value-range#{rcond},D={D},{fl}#validation")
                                continue
                            finally:
                                it.ctx.decide = base_decide
                            from vf.harness import _same

                            x = (other["C"], other["L"], None if other["N"] is None else list(other["N"].data), other["integrator"])
                            y = (eager["C"], eager["L"], None if eager["N"] is None else list(eager["N"].data), eager["integrator"])
                            d3 = [n_ for n_, u_, v_ in zip(("num_channels", "linear symbol", "nonlinear term", "integrator"), x, y) if not ((u_ is None and v_ is None) or _same(u_, v_))]
                            rkey = f"{cls.qual}#value-range#{rcond},D={D},{fl}"
                            if d3:
                                ck.fail("special-value", rkey, f"{rfile}:{rline}", f"{pub}: the Python branch on {rcond} builds different steppers on its two sides ({', '.join(d3)} differ); an eager construction follows the value, a construction under jit / filter_vmap cannot: the results disagree on one side")
                            else:
                                ck.ok("special-value", rkey)
                        it.ctx.events[:] = evs  # only the traced run's events count
                        a = (traced["C"], _p(traced["dt"]), traced["L"], None if traced["N"] is None else list(traced["N"].data), traced["integrator"])
                        b = (eager["C"], _p(eager["dt"]), eager["L"], None if eager["N"] is None else list(eager["N"].data), eager["integrator"])
                        from vf.harness import _same

                        diff = [n_ for n_, x, y in zip(("num_channels", "dt", "linear symbol", "nonlinear term", "integrator"), a, b) if not ((x is None and y is None) or _same(x, y))]
                        if diff:
                            ck.fail("trace-safety", f"{cls.qual}#traced-vs-eager", loc(cls.find("__init__")), f"[S2] constructing {pub} with traced float parameters (eqx.filter_vmap) gives a different stepper than the eager construction: {', '.join(diff)} differ (a Python-level dispatch such as isinstance(x, float) takes another branch for tracers)")

                    run_entry(it, "S2 construction under filter_vmap", name, thunk, loc(cls.find("__init__")))
        # integrators with a real constructor
        it_e = new_interp(ck.repo, parity=0, stub_etdrk=False, decide=_decide)
        it_e.ctx.call_log = set()
        et = it_e.module("exponax.etdrk").env
        lam = Poly.atom(("s", "lam"))
        linop = Tens((1, N, H_of(0)), [lam])
        for n in range(0, 5):
            cls = et.get(f"ETDRK{n}")
            args = [DT, linop] if n == 0 else [DT, linop, UFun("Nl")]
            kw = {} if n == 0 else {"num_circle_points": M, "circle_radius": R}
            run_entry(it_e, "S2 construction under filter_vmap", f"exponax.etdrk.ETDRK{n}", lambda: it_e.call(cls, args, kw), loc(cls.find("__init__")))
        # wrappers
        Diff = it.module("exponax.stepper").env.get("Diffusion")
        inner = catalog.build(it, Diff, 1)
        RS = it.module("exponax._repeated_stepper").env.get("RepeatedStepper")
        FS = it.module("exponax._forced_stepper").env.get("ForcedStepper")
        Po = it.module("exponax._poisson").env.get("Poisson")
        run_entry(it, "S2 construction", "exponax.RepeatedStepper", lambda: it.call(RS, [inner, 3]), loc(RS.find("__init__")))
        run_entry(it, "S2 construction", "exponax.ForcedStepper", lambda: it.call(FS, [inner]), loc(FS.find("__init__")))
        for D in (1, 2, 3):
            run_entry(it, "S2 construction", f"exponax.poisson.Poisson(D={D})", lambda: it.call(Po, [D, L, N]), loc(Po.find("__init__")))
        # ------------------------------------------------------------------ S1: calls with a traced state
        it1 = new_interp(ck.repo, parity=0, stub_etdrk="symbolic", decide=_decide)
        it1.ctx.opaque_nonlinear = True
        it1.ctx.call_log = set()
        st1 = dict((c.name, c) for _, c in catalog.exported_steppers(it1))
        for pub, cls in steppers:
            cls1 = st1[cls.name]
            dims, _ = catalog.allowed_dims(it, cls)
            D = dims[0]
            pos, kw, _, _ = catalog.init_params(cls1)
            orders = [None]
            if cls.name == "Burgers":
                orders = [0, 1, 2, 3, 4]
            for order in orders:
                okw = {} if order is None else {"order": order}
                name = f"{pub}.__call__(D={D}{'' if order is None else f',order={order}'})"

                def thunk():
                    o = catalog.build(it1, cls1, D, **okw)
                    it1.ctx.events.clear()  # construction is scenario S2's subject
                    u = state_phys(D, o.f["num_channels"])
                    r = it1.call(o, [u])
                    if not isinstance(r, Tens) or r.shape != u.shape:
                        raise ShapeError(f"step returns shape {getattr(r, 'shape', None)} for input {u.shape}")
                    uh = state_hat(D, o.f["num_channels"], 0)
                    it1.call(it1.getattr(o, "step_fourier"), [uh])
                    nf = o.f["_integrator"].f.get("real_nonlinear_fun")
                    if nf is not None:
                        it1.call(nf, [uh])

                run_entry(it1, "S1 call under jit/vmap", name, thunk, loc(cls.find("__init__")))
        # wrappers, traced state
        inner1 = catalog.build(it1, st1["Diffusion"], 1)
        FS1 = it1.module("exponax._forced_stepper").env.get("ForcedStepper")
        Po1 = it1.module("exponax._poisson").env.get("Poisson")
        u = state_phys(1, 1)
        run_entry(it1, "S1 call", "exponax.ForcedStepper.__call__", lambda: it1.call(it1.call(FS1, [inner1]), [u, state_phys(1, 1, "f")]), loc(FS1.find("step")))
        run_entry(it1, "S1 call", "exponax.poisson.Poisson.__call__", lambda: it1.call(it1.call(Po1, [1, L, N]), [u]), loc(Po1.find("step")))
        it1.ctx.scan_term_mode = True
        RS1 = it1.module("exponax._repeated_stepper").env.get("RepeatedStepper")
        run_entry(it1, "S1 call", "exponax.RepeatedStepper.__call__", lambda: it1.call(it1.call(RS1, [inner1, S("n")]), [u]), loc(RS1.find("step")))
        it1.ctx.scan_term_mode = False
        # trajectory utilities with an opaque (traced) state
        ut = it1.module("exponax._utils").env
        Sf = UFun("S", mode="term")
        for ta, ca, ii in itertools.product((False, True), (False, True), (False, True)):
            if not ta and not ca:
                continue
            run_entry(it1, "S1 call", f"exponax.rollout(takes_aux={ta},constant_aux={ca},include_init={ii})", lambda: it1.call(it1.call(ut.get("rollout"), [Sf, S("n")], {"takes_aux": ta, "constant_aux": ca, "include_init": ii}), [Term("u0")] + ([Term("aux")] if ta else [])), loc(ut.get("rollout")))
        for ta, ca in ((False, True), (True, True), (True, False)):
            run_entry(it1, "S1 call", f"exponax.repeat(takes_aux={ta},constant_aux={ca})", lambda: it1.call(it1.call(ut.get("repeat"), [Sf, S("n")], {"takes_aux": ta, "constant_aux": ca}), [Term("u0")] + ([Term("aux")] if ta else [])), loc(ut.get("repeat")))
        reached.update(it1.ctx.call_log)
        reached.update(it.ctx.call_log)
        reached.update(it_e.ctx.call_log)
        branches.update(it1.ctx.branch_log)
        branches.update(it.ctx.branch_log)
        branches.update(it_e.ctx.branch_log)
    ck.floor("entry points interpreted", entries, 150)
    ck.floor("functions reached", len(reached), 100)
    ck.floor("branch tests evaluated", len(branches), 60)
    ck.extra["functions_reached"] = len(reached)
    ck.extra["branch_tests_evaluated"] = len(branches)
    ck.extra["entry_points"] = entries
    ck.sample({"functions_reached": sorted(reached)[:25], "branch_tests": sorted(f"{f}:{l}: {s}" for f, l, s in branches)[:25]})
    ck.assumptions += [
        "eqx.filter_vmap / filter_jit trace exactly the float / array leaves: int, bool, str parameters and array shapes stay static",
        "given trace-safe Python code, JAX guarantees that jit/vmap/scan compute the same mathematical function; bitwise / rounding-level equality of the numbers is NOT decided",
    ]
    return ck.finish(
        explanation="Abstract interpretation of every exported stepper's constructor (all supported dimensions and flag rows) with every float parameter a symbolic (tracer-like) value, of the integrators, wrappers and Poisson solver, and of every stepper's __call__/step_fourier, the wrapper steppers and the rollout/repeat closures with a symbolic state. Every Python branch, truth test, float()/int() coercion, isinstance(float) dispatch, container equality or attribute assignment outside __init__ that involves a traced value is a finding naming the statement; branches on static configuration (dimension, flags, shapes, is-None tests) are evaluated and counted.",
        rule_text="one instance = one entry point in one scenario; a finding is keyed by (function, construct)",
        trusted=["CPython ast", "equinox filter semantics (which leaves are traced)"],
    )
