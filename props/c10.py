"""C10 - incompressibility is enforced and preserved (DESIGN 3, C10)."""

from __future__ import annotations

from vf import alg, catalog
from vf import symops as SO
from vf.alg import Poly, as_poly
from vf.harness import Check, new_interp, N, L, DT, H_of, loc, AnalysisBroken, state_hat, state_phys
from vf.interp import Obj, RepoRaise
from vf.tens import Tens
from specs import common as C
from specs import nonlinear as SPN

PROP = "C10"
LEVEL = "translation_validation"
S = Poly.sym


def div(Dv, u):
    return sum((Dv[j] * u[j] for j in range(len(Dv))), Poly())


def run(tier="quick", only_key=None):
    ck = Check(PROP, LEVEL, tier, only_key)
    ck.rule("leray-divfree", "sum_j D_j P(u)_j == 0 for every u (generic and mean-mode worlds)")
    ck.rule("leray-idempotent", "P(P(u)) == P(u)")
    ck.rule("leray-identity", "P(u) == u whenever sum_j D_j u_j == 0")
    ck.rule("leray-formula", "P(u) = u - grad Laplace^-1 div u off the mean mode, identity at it")
    ck.rule("make-incompressible", "make_incompressible(u) == ifft(Leray(fft(u))) (sibling agreement); channel/dimension guard raises")
    ck.rule("convection-projected", "ProjectedConvection3d output has zero divergence for every input")
    ck.rule("ns-linear-uniform", "the velocity steppers' linear symbol is channel-uniform (shape (1, ...)) so the update preserves divergence-free states")
    ck.rule("forcing-divfree", "the Kolmogorov velocity forcing has zero divergence")
    rows = 0
    for parity in (0, 1):
        it = new_interp(ck.repo, parity=parity)
        try:
            Leray = it.module("exponax.nonlin_fun").env.get("Leray")
            mk = it.module("exponax._spectral").env.get("make_incompressible")
            PC = it.module("exponax.nonlin_fun").env.get("ProjectedConvection3d")
            PCK = it.module("exponax.nonlin_fun").env.get("ProjectedConvection3dKolmogorov")
        except KeyError as e:
            raise AnalysisBroken(f"anchor vanished: {e}")
        for D in (2, 3):
            Dv = C.deriv(D, L)
            fshape = (N,) * (D - 1) + (H_of(parity),)
            Dop = Tens((D,) + fshape, Dv)
            P = it.call(Leray, [], {"num_spatial_dims": D, "num_points": N, "derivative_operator": Dop})
            u = state_hat(D, D, parity)
            Pu = it.call(P, [u])
            PPu = it.call(P, [Pu])
            at = loc(Leray.find("__call__"))
            kb = f"{Leray.qual}#D={D},Nparity={parity}"
            for world in ("generic", "dc"):
                try:
                    pw = [SO.specialize(e, world) for e in Pu.data]
                    ppw = [SO.specialize(e, world) for e in PPu.data]
                except alg.AlgError as ex:
                    ck.fail("leray-formula", kb + f"#{world}", at, f"projection singular in the {world} world: {ex}")
                    continue
                Dw = [SO.specialize(d, world) for d in Dv]
                ck.compare("leray-divfree", kb + f"#divfree#{world}", at, div(Dw, pw), Poly(), what="divergence of the projected field is not identically zero")
                ck.compare("leray-idempotent", kb + f"#idempotent#{world}", at, ppw, pw, what="projection is not idempotent")
                ref = SPN.leray(SPN.Ctx(D, parity, None), list(u.data)) if world == "generic" else list(u.data)
                ck.compare("leray-formula", kb + f"#formula#{world}", at, pw, [as_poly(x) for x in ref])
                rows += 3
            # identity on divergence-free input: eliminate the last component
            last = D - 1
            ulist = list(u.data)
            sub_last = -sum((Dv[j] * ulist[j] for j in range(last)), Poly()) / Dv[last]
            udf = Tens(u.shape, ulist[:last] + [sub_last])
            Pdf = it.call(P, [udf])
            ck.compare("leray-identity", kb + "#identity#generic", at, [SO.specialize(e, "generic") for e in Pdf.data], list(udf.data), what="projection changes a divergence-free field")
            # ---- make_incompressible
            up = state_phys(D, D)
            res = it.call(mk, [up])
            uh = Tens(u.shape, [C.fft(x, D) for x in up.data])
            ref = it.call(P, [uh])
            ref = Tens(up.shape, [SO.inverse_entry(e, D) for e in ref.data])
            ck.compare("make-incompressible", f"exponax._spectral.make_incompressible#D={D},Nparity={parity}", loc(mk), res, ref, what="make_incompressible differs from ifft(Leray(fft(u)))")
            rows += 2
            bad = state_phys(D, D + 1)
            try:
                it.call(mk, [bad])
                ck.fail("make-incompressible", f"exponax._spectral.make_incompressible#guard,D={D}", loc(mk), "a field with C != D is accepted")
            except RepoRaise as e:
                if e.exc_name == "ValueError":
                    ck.ok("make-incompressible", f"exponax._spectral.make_incompressible#guard,D={D}")
                else:
                    ck.fail("make-incompressible", f"exponax._spectral.make_incompressible#guard,D={D}", loc(mk), f"raises {e.exc_name}")
        # ---- projected convection
        D = 3
        Dv = C.deriv(D, L)
        fshape = (N,) * (D - 1) + (H_of(parity),)
        Dop = Tens((D,) + fshape, Dv)
        for cls, kw in ((PC, {}), (PCK, {"injection_mode": S("kinj"), "injection_scale": S("gam")})):
            o = it.call(cls, [D, N], dict(derivative_operator=Dop, dealiasing_fraction=S("f"), **kw))
            u = state_hat(D, 3, parity)
            out = it.call(o, [u])
            for world in ("generic", "dc"):
                ow = [SO.kill_k_times_zero_indicator(SO.specialize(e, world) * SO.specialize(Dv[j], world)) for j, e in enumerate(out.data)]
                tot = sum(ow, Poly())
                ck.compare("convection-projected" if cls is PC else "forcing-divfree", f"{cls.qual}.__call__#divergence#Nparity={parity},{world}", loc(cls.find("__call__")), tot, Poly(), what="output of the nonlinear term is not divergence-free")
                rows += 1
        # ---- steppers
        its = new_interp(ck.repo, parity=parity, stub_etdrk=True)
        for name in ("NavierStokesVelocity", "KolmogorovFlowVelocity"):
            try:
                cls = its.module("exponax.stepper").env.get(name)
            except KeyError:
                raise AnalysisBroken(f"exponax.stepper.{name} vanished")
            f = catalog.stepper_forms(its, cls, 3, parity)
            key = f"{cls.qual}#linear-uniform#Nparity={parity}"
            if isinstance(f["L"], Tens) and f["L"].shape[0] == 1 and f["C"] == 3:
                ck.ok("ns-linear-uniform", key, form=f["L"])
            else:
                ck.fail("ns-linear-uniform", key, loc(cls.find("_build_linear_operator")), f"linear operator has shape {getattr(f['L'], 'shape', None)} for {f['C']} channels: channels are damped differently, divergence-free states are not preserved")
            rows += 1
    ck.floor("identity rows", rows, 40)
    ck.assumptions += ["the ETDRK update is a combination of u_hat and N(.) with channel-uniform coefficient arrays (C02), hence maps divergence-free spectra to divergence-free spectra when the linear symbol is channel-uniform and N is divergence-free", "accumulated rounding over rollouts not decided"]
    return ck.finish(
        explanation="Leray, make_incompressible, ProjectedConvection3d(+Kolmogorov) and the two velocity steppers are interpreted for D in {2,3}, N even/odd; divergence-freeness, idempotence, identity on divergence-free fields and agreement of the two projection routines are polynomial identities decided by normal forms (inverse-Laplacian relation applied by exact division) in the generic and mean-mode worlds.",
        rule_text="one program = (routine, D, parity, world, identity); distinct = distinct canonical forms",
        trusted=["CPython ast", "vf normal forms (inverse normalisation)", "rfftn/irfftn inverse linear maps"],
    )
