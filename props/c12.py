"""C12 - forcing terms inject exactly the documented field (DESIGN 3, C12)."""

from __future__ import annotations

from fractions import Fraction as Fr

from vf import alg, catalog
from vf import symops as SO
from vf.alg import Poly, as_poly
from vf.harness import Check, new_interp, N, L, DT, M, R, H_of, loc, AnalysisBroken, state_hat, state_phys
from vf.interp import Obj, RepoRaise
from vf.tens import Tens
from specs import common as C
from specs import forcing as SF

PROP = "C12"
LEVEL = "translation_validation"
S = Poly.sym
KINJ, GAM = S("kinj"), S("gam")


def value_at(poly, D, axis, sign):
    """value of a spectrum-valued canonical form at the stored mode with wavenumber sign*kinj on `axis`
    and 0 on the other axes (kinj is an interior mode: 0 < kinj < N/2)"""
    world = {a: ("int" if a == axis else "zero") for a in range(D)}
    world["N"] = N
    p = SO.specialize(poly, world)
    sub = {}
    for a in p.all_atoms():
        if a[0] == "k" and a[1] == axis:
            sub[a] = KINJ * sign
    p = alg.subs(p, sub)
    return p


def support(poly, D):
    """set of (axis, value) pins found in the equality indicators of every term"""
    pins = set()
    for a in poly.all_atoms():
        if a[0] == "ind" and a[1] == "eq":
            d = a[2] - a[3]
            ks = [b for b in d.atoms() if b[0] == "k"]
            if len(ks) == 1:
                kp = Poly.atom(ks[0])
                coef = [c for m, c in d.t.items() if m == ((ks[0], 1),)]
                if coef:
                    rest = (d - kp.scale(coef[0])).scale(coef[0].inv())
                    pins.add((ks[0][1], str(-rest)))
    return pins


def run(tier="quick", only_key=None):
    ck = Check(PROP, LEVEL, tier, only_key)
    ck.rule("injection-spectrum", "the constant spectrum added by the Kolmogorov terms equals the rfft representation of the documented forcing: channel, axis, wavenumber, amplitude (gamma on velocity, -k(2pi/L)gamma on vorticity), phase (sin: -i/+i on the +-k pair; cos: real) and Hermitian partner on non-halved axes; zero elsewhere")
    ck.rule("every-stage", "Kolmogorov nonlinear term = unforced term + injection for every state (hence added in every ETDRK stage)")
    ck.rule("forwarding", "the Kolmogorov steppers forward injection_mode / injection_scale; the generic vorticity stepper dispatches on injection_scale")
    ck.rule("forced-stepper", "ForcedStepper: step(u, f) = stepper.step(u + dt f) with the wrapped stepper's dt, same in Fourier space, __call__ delegates; zero forcing = unforced step")
    for parity in (0, 1):
        it = new_interp(ck.repo, parity=parity, stub_etdrk=True)
        it.ctx.region_strict = True  # value-range dependent construction contradicts the documented formula
        nfm = it.module("exponax.nonlin_fun").env
        try:
            V2, V2K = nfm.get("VorticityConvection2d"), nfm.get("VorticityConvection2dKolmogorov")
            P3, P3K = nfm.get("ProjectedConvection3d"), nfm.get("ProjectedConvection3dKolmogorov")
        except KeyError as e:
            raise AnalysisBroken(f"anchor vanished: {e}")
        for (cls, base, D, Cn, doc) in (
            (V2K, V2, 2, 1, {"channel": 0, "axis": 1, "kind": "cos", "amp": lambda: -KINJ * (2 * alg.PI / L) * GAM}),
            (P3K, P3, 3, 3, {"channel": 0, "axis": 1, "kind": "sin", "amp": lambda: GAM}),
        ):
            Dv = C.deriv(D, L)
            fshape = (N,) * (D - 1) + (H_of(parity),)
            kw = dict(derivative_operator=Tens((D,) + fshape, Dv), dealiasing_fraction=S("f"), injection_mode=KINJ, injection_scale=GAM)
            if cls is V2K:
                kw["convection_scale"] = S("b")
            o = it.call(cls, [D, N], kw)
            inj = o.f.get("injection")
            at = loc(cls.find("__init__"))
            kb = f"{cls.qual}#Nparity={parity}"
            if not isinstance(inj, Tens) or inj.shape != (Cn,) + fshape:
                ck.fail("injection-spectrum", kb + "#shape", at, f"injection has shape {getattr(inj, 'shape', None)}, expected {(Cn,) + fshape}")
                continue
            ref = SF.single_mode_spectrum(D, doc["axis"], KINJ, doc["amp"](), doc["kind"], N)
            for c in range(Cn):
                e = inj.data[c]
                for sign in (+1, -1):
                    if sign == -1 and doc["axis"] == D - 1:
                        continue  # not stored on the halved axis
                    want = ref.get(sign, Poly()) if c == doc["channel"] else Poly()
                    got = value_at(e, D, doc["axis"], sign)
                    ck.compare("injection-spectrum", kb + f"#channel={c},mode={'+' if sign > 0 else '-'}kinj", at, got, as_poly(want), what=f"coefficient at wavenumber {'+' if sign > 0 else '-'}k on axis {doc['axis']} of channel {c} differs from the documented forcing")
                # nothing injected anywhere else: every term must be pinned to k_a = 0 (a != axis) and k_axis in {+-kinj}
                if not e.is_zero():
                    pins = support(e, D)
                    ok = all((a, "0") in pins for a in range(D) if a != doc["axis"]) and any(p[0] == doc["axis"] for p in pins)
                    if ok:
                        ck.ok("injection-spectrum", kb + f"#channel={c},support")
                    else:
                        ck.fail("injection-spectrum", kb + f"#channel={c},support", at, f"injected spectrum is not confined to the forced mode(s): pins {sorted(pins)}")
            # ---- every stage
            ob = it.call(base, [D, N], {k: v for k, v in kw.items() if not k.startswith("injection")})
            u = state_hat(D, Cn, parity)
            full = it.call(o, [u])
            plain = it.call(ob, [u])
            diff = [a - b for a, b in zip(full.data, plain.data)]
            ck.compare("every-stage", kb + "#N_K(u)-N(u)==injection", loc(cls.find("__call__")), diff, list(inj.data), what="forced term is not unforced term + injection")
        # ---- forwarding through the steppers
        st = dict((c.name, c) for _, c in catalog.exported_steppers(it))
        for name, D, direct_cls, extra in (("KolmogorovFlowVorticity", 2, V2K, {"convection_scale": S("convection_scale")}), ("KolmogorovFlowVelocity", 3, P3K, {})):
            if name not in st:
                raise AnalysisBroken(f"{name} vanished")
            f = catalog.stepper_forms(it, st[name], D, parity)
            nf = f["nf"]
            key = f"{st[name].qual}#forwarding#Nparity={parity}"
            Dv = C.deriv(D, L)
            fshape = (N,) * (D - 1) + (H_of(parity),)
            direct = it.call(direct_cls, [D, N], dict(derivative_operator=Tens((D,) + fshape, Dv), dealiasing_fraction=S("dealiasing_fraction"), injection_mode=KINJ, injection_scale=S("injection_scale"), **extra))
            if nf.cls is direct_cls and isinstance(nf.f.get("injection"), Tens) and nf.f["injection"].data == direct.f["injection"].data:
                ck.ok("forwarding", key, form=nf.f["injection"])
            else:
                ck.fail("forwarding", key, loc(st[name].find("_build_nonlinear_fun")), "stepper does not forward injection_mode / injection_scale to the Kolmogorov nonlinear function")
        G = st.get("GeneralVorticityConvectionStepper")
        if G is None:
            raise AnalysisBroken("GeneralVorticityConvectionStepper vanished")
        f0 = catalog.stepper_forms(it, G, 2, parity, injection_scale=0)
        f1 = catalog.stepper_forms(it, G, 2, parity, injection_scale=GAM, injection_mode=KINJ)
        key = f"{G.qual}#dispatch#Nparity={parity}"
        Dv2 = C.deriv(2, L)
        fshape2 = (N, H_of(parity))
        direct2 = it.call(V2K, [2, N], dict(derivative_operator=Tens((2,) + fshape2, Dv2), dealiasing_fraction=S("dealiasing_fraction"), injection_mode=KINJ, injection_scale=GAM, convection_scale=S("vorticity_convection_scale")))
        if f0["nf"].cls is V2 and f1["nf"].cls is V2K and f1["nf"].f["injection"].data[0] != Poly() and any(a == ("s", "gam") for a in f1["nf"].f["injection"].data[0].all_atoms()):
            if f1["nf"].f["injection"].data == direct2.f["injection"].data:
                ck.ok("forwarding", key)
            else:
                ck.fail("forwarding", key, loc(G.find("_build_nonlinear_fun")), "the generic stepper does not forward injection_mode / injection_scale unchanged: its injection spectrum differs from VorticityConvection2dKolmogorov(injection_mode, injection_scale)")
        else:
            ck.fail("forwarding", key, loc(G.find("_build_nonlinear_fun")), f"dispatch on injection_scale wrong: scale 0 -> {f0['nf'].cls.name}, scale gamma -> {f1['nf'].cls.name}")
        # ---- ForcedStepper
        it2 = new_interp(ck.repo, parity=parity, stub_etdrk="nonlinear")
        FS = it2.module("exponax._forced_stepper").env.get("ForcedStepper")
        Diff = it2.module("exponax.stepper").env.get("Diffusion")
        for D in (1, 2):
            inner = it2.call(Diff, [D, L, N, S("dt_inner")], {"diffusivity": S("nu")})
            fs = it2.call(FS, [inner])
            u, f = state_phys(D, 1, "u"), state_phys(D, 1, "f")
            key = f"{FS.qual}#D={D},Nparity={parity}"
            res = it2.call(it2.getattr(fs, "step"), [u, f])
            ref = it2.call(it2.getattr(inner, "step"), [Tens(u.shape, [u.data[0] + S("dt_inner") * f.data[0]])])
            ck.compare("forced-stepper", key + "#step", loc(FS.find("step")), res, ref, what="step(u,f) is not stepper.step(u + dt*f) with the wrapped stepper's dt")
            res2 = it2.call(fs, [u, f])
            ck.compare("forced-stepper", key + "#call", loc(FS.find("__call__")), res2, ref)
            uh, fh = state_hat(D, 1, parity, "u"), state_hat(D, 1, parity, "f")
            res3 = it2.call(it2.getattr(fs, "step_fourier"), [uh, fh])
            ref3 = it2.call(it2.getattr(inner, "step_fourier"), [Tens(uh.shape, [uh.data[0] + S("dt_inner") * fh.data[0]])])
            ck.compare("forced-stepper", key + "#step_fourier", loc(FS.find("step_fourier")), res3, ref3)
            zero = Tens(u.shape, [Poly()])
            res4 = it2.call(fs, [u, zero])
            ck.compare("forced-stepper", key + "#zero-forcing", loc(FS.find("step")), res4, it2.call(it2.getattr(inner, "step"), [u]))
    ck.assumptions += ["0 < injection_mode < N/2 (an interior mode)", "laminar-solution numerics follow from these formulas + C02 and are not decided", "documented forcings: stepper docstrings of KolmogorovFlowVorticity / KolmogorovFlowVelocity"]
    return ck.finish(
        explanation="The constructors of the two Kolmogorov nonlinear functions are interpreted with symbolic injection mode and scale; the stored injection spectrum is evaluated at the stored modes (+-k on the forcing axis, 0 elsewhere) using the scaling-array mode classes and compared with the rfft representation of the documented forcing field synthesised in specs/forcing.py; its support must be confined to the forced modes. N_K(u) - N(u) must equal the injection for a symbolic state; the steppers must forward the injection parameters; ForcedStepper's three methods are compared with stepper.step(u + dt f).",
        rule_text="one program = (class, channel, stored mode) / (stepper, parity) / (ForcedStepper method, D, parity)",
        trusted=["CPython ast", "vf normal forms", "numpy rfftn layout (specs/forcing.py)"],
    )
