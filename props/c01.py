"""C01 - linear steppers advance band-limited states by the exact PDE solution (DESIGN 3, C01)."""

from __future__ import annotations

import itertools
from fractions import Fraction as Fr

from vf import alg, catalog
from vf import symops as SO
from vf.alg import Poly, as_poly
from vf.harness import Check, new_interp, N, L, DT, H_of, loc, AnalysisBroken, state_hat, state_phys
from vf.interp import Obj, RepoRaise
from vf.tens import Tens
from specs import linear as SP
from specs import common as C

PROP = "C01"
LEVEL = "translation_validation"

S = Poly.sym


def vec(name, D):
    return Tens((D,), [S(f"{name}{j}") for j in range(D)])


def mat(name, D):
    return Tens((D, D), [S(f"{name}{i}{j}") for i in range(D) for j in range(D)])


def as_list(t):
    if isinstance(t, Tens):
        if t.ndim == 1:
            return list(t.data)
        return [[t.at((i, j)) for j in range(t.shape[1])] for i in range(t.shape[0])]
    return t


def linear_rows(name, D, tier):
    """(label, ctor kwargs, spec(Dv)->Poly, expected (L, dt))"""
    lens = range(1, 8) if tier == "quick" else range(1, 10)
    if name == "Advection":
        for form, v in (("scalar", S("c")), ("vector", vec("c", D))):
            yield f"velocity={form}", {"velocity": v}, (lambda Dv, v=v: SP.advection(Dv, as_list(v))), (L, DT)
    elif name == "Diffusion":
        for form, a in (("scalar", S("nu")), ("vector", vec("nu", D)), ("matrix", mat("A", D))):
            yield f"diffusivity={form}", {"diffusivity": a}, (lambda Dv, a=a: SP.diffusion(Dv, as_list(a))), (L, DT)
    elif name == "AdvectionDiffusion":
        for (fv, v), (fa, a) in itertools.product((("scalar", S("c")), ("vector", vec("c", D))), (("scalar", S("nu")), ("vector", vec("nu", D)), ("matrix", mat("A", D)))):
            yield f"velocity={fv},diffusivity={fa}", {"velocity": v, "diffusivity": a}, (lambda Dv, v=v, a=a: SP.advection_diffusion(Dv, as_list(v), as_list(a))), (L, DT)
    elif name == "Dispersion":
        for (fx, x), mix in itertools.product((("scalar", S("xi")), ("vector", vec("xi", D))), (False, True)):
            yield f"dispersivity={fx},advect_on_diffusion={mix}", {"dispersivity": x, "advect_on_diffusion": mix}, (lambda Dv, x=x, mix=mix: SP.dispersion(Dv, as_list(x), mix)), (L, DT)
    elif name == "HyperDiffusion":
        for mix in (False, True):
            yield f"diffuse_on_diffuse={mix}", {"hyper_diffusivity": S("mu"), "diffuse_on_diffuse": mix}, (lambda Dv, mix=mix: SP.hyper_diffusion(Dv, S("mu"), mix)), (L, DT)
    elif name == "GeneralLinearStepper":
        for n in lens:
            a = tuple(S(f"a{j}") for j in range(n))
            yield f"len={n}", {"linear_coefficients": a}, (lambda Dv, a=a: SP.general_linear(Dv, a)), (L, DT)
    elif name == "NormalizedLinearStepper":
        for n in lens:
            a = tuple(S(f"al{j}") for j in range(n))
            yield f"len={n}", {"normalized_linear_coefficients": a}, (lambda Dv, a=a: SP.general_linear(Dv, a)), (1, 1)
    elif name == "DifficultyLinearStepper":
        for n in lens:
            g = tuple(S(f"g{j}") for j in range(n))
            yield f"len={n}", {"linear_difficulties": g}, (lambda Dv, g=g: SP.general_linear(Dv, SP.difficulty_to_normalized(g, len(Dv), N))), (1, 1)
    elif name == "DifficultyLinearStepperSimple":
        for order in range(0, 6 if tier == "quick" else 8):
            g = (0,) * order + (S("g"),)
            yield f"order={order}", {"difficulty": S("g"), "order": order}, (lambda Dv, g=g: SP.general_linear(Dv, SP.difficulty_to_normalized(g, len(Dv), N))), (1, 1)
    else:
        raise AnalysisBroken(f"linear stepper {name} has no reference formula in specs/linear.py")


def run(tier="quick", only_key=None):
    ck = Check(PROP, LEVEL, tier, only_key)
    ck.rule("symbol", "the linear operator handed to the integrator equals the documented Fourier symbol (shape (1, N.., N//2+1))")
    ck.rule("derivative-operator", "build_derivative_operator = i*2*pi*k_j/L with the full/halved wavenumber layout")
    ck.rule("order0", "the stepper uses the order-0 integrator with its own dt, domain extent and a zero nonlinear term")
    ck.rule("step", "step(u) = ifft(exp(dt*symbol) * fft(u)) with matching num_spatial_dims / num_points")
    ck.rule("wave", "the wave step equals the exact 2x2 solution operator per mode (generic world) and h+dt*v, v at the mean mode; inverse o forward transform = identity")
    n_rows = 0
    n_classes = set()
    for parity in (0, 1):
        it = new_interp(ck.repo, parity=parity, stub_etdrk="nonlinear")
        sp = it.module("exponax._spectral")
        for D in (1, 2, 3):
            d = it.call(sp.env.get("build_derivative_operator"), [D, L, N])
            ck.compare("derivative-operator", f"exponax._spectral.build_derivative_operator#D={D},Nparity={parity}", loc(sp.env.get("build_derivative_operator")), d, Tens((D,) + (N,) * (D - 1) + (H_of(parity),), C.deriv(D)))
        steppers = catalog.exported_steppers(it)
        for pub, cls in steppers:
            dims, _ = catalog.allowed_dims(it, cls)
            if not dims:
                continue
            probe = catalog.build(it, cls, dims[0])
            integ = probe.f.get("_integrator")
            if not (isinstance(integ, Obj) and integ.cls.name == "ETDRK0"):
                continue
            n_classes.add(cls.name)
            if cls.name == "Wave":
                _wave(ck, it, cls, parity, tier)
                continue
            for D in dims:
                Dv = C.deriv(D, L)
                for label, kw, spec, (eL, edt) in linear_rows(cls.name, D, tier):
                    key = f"{cls.qual}#D={D},Nparity={parity},{label}"
                    at = loc(cls.find("_build_linear_operator") or cls.find("__init__"))
                    pos = catalog.positional_args(cls, D)
                    try:
                        o = catalog.construct(it, cls, pos, kw)
                    except RepoRaise as e:
                        ck.fail("symbol", key, f"{e.file}:{getattr(e.node, 'lineno', '?')}", f"constructor raises {e.exc_name} for a documented configuration")
                        continue
                    n_rows += 1
                    integ = o.f["_integrator"]
                    Dv_row = C.deriv(D, as_poly(eL))
                    ref_sym = spec(Dv_row)
                    shape = (1,) + (N,) * (D - 1) + (H_of(parity),)
                    # the operator the integrator exponentiates: recover it from exp term is not possible; re-run builder
                    lin = it.call(cls.find("_build_linear_operator"), [o, Tens((D,) + shape[1:], Dv_row)])
                    ck.compare("symbol", key, at, lin, Tens(shape, [ref_sym]), config={"D": D, "N parity": parity, "row": label})
                    probs = []
                    if integ.cls.name != "ETDRK0":
                        probs.append(f"integrator is {integ.cls.name}")
                    if as_poly(integ.f.get("dt")) != as_poly(edt) or as_poly(o.f.get("dt")) != as_poly(edt):
                        probs.append(f"dt is {integ.f.get('dt')} / {o.f.get('dt')}, documented {edt}")
                    if as_poly(o.f.get("domain_extent")) != as_poly(eL):
                        probs.append(f"domain_extent is {o.f.get('domain_extent')}, documented {eL}")
                    if o.f.get("num_channels") != 1:
                        probs.append(f"num_channels={o.f.get('num_channels')}")
                    if not _same_t(integ.f.get("_exp_term"), Tens(shape, [alg.exp(as_poly(edt) * ref_sym)])):
                        probs.append("propagator is not exp(dt*symbol)")
                    if probs:
                        ck.fail("order0", key + "#order0", loc(cls.find("__init__")), "; ".join(probs))
                    else:
                        ck.ok("order0", key + "#order0")
                    # full step in physical space
                    u = state_phys(D, 1)
                    res = it.call(it.getattr(o, "step"), [u])
                    ref = SO.inverse_entry(alg.exp(as_poly(edt) * ref_sym) * SO.forward_entry(u.data[0], D), D)
                    ck.compare("step", key + "#step", loc(catalog.base_stepper(it).find("step")), res, Tens(u.shape, [ref]))
    ck.floor("linear stepper classes", len(n_classes), 10)
    ck.floor("configuration rows", n_rows, 150)
    ck.extra["config_rows"] = n_rows
    ck.extra["classes"] = sorted(n_classes)
    ck.assumptions += [
        "L, dt, N and all PDE coefficients are free symbols: equality of canonical forms holds for every value (incl. negative dt, dt beyond CFL)",
        "exactness on band-limited states and the semigroup / reversibility corollaries follow from step = ifft(exp(dt*symbol) fft(u)) (identities of exp); rounding and the accuracy of jnp.fft are NOT decided",
        "reference symbols transcribed from the class docstrings (specs/linear.py)",
    ]
    return ck.finish(
        explanation="Value numbering of every exported order-0 stepper: constructor chain -> _build_linear_operator -> ETDRK0 -> BaseStepper.step is interpreted symbolically for D in {1,2,3}, N even/odd and every coefficient-form / flag row; the linear operator, the propagator and the physical-space step are compared by normal-form identity with the documented symbol. The wave stepper's transform-rotate-transform step is compared with the exact solution operator in the generic and mean-mode worlds.",
        rule_text="one program = (stepper class, D, N parity, configuration row); non-trivial = non-constant canonical form; distinct = distinct canonical forms",
        trusted=["CPython ast", "vf normal forms", "specs/linear.py", "numpy layout of rfftn / fftfreq / meshgrid (checked against C04's rules)"],
    )


def _same_t(a, b):
    return isinstance(a, Tens) and isinstance(b, Tens) and a.shape == b.shape and a.data == b.data


def _wave(ck, it, cls, parity, tier):
    c = S("c")
    for D in (1, 2, 3):
        key0 = f"{cls.qual}#D={D},Nparity={parity}"
        o = it.call(cls, [D, L, N, DT], {"speed_of_sound": c})
        integ = o.f["_integrator"]
        probs = []
        if integ.cls.name != "ETDRK0":
            probs.append(f"integrator is {integ.cls.name}")
        if o.f.get("num_channels") != 2:
            probs.append(f"num_channels={o.f.get('num_channels')}")
        if as_poly(integ.f.get("dt")) != DT:
            probs.append("integrator dt differs from the stepper's dt")
        if probs:
            ck.fail("order0", key0 + "#order0", loc(cls.find("__init__")), "; ".join(probs))
        else:
            ck.ok("order0", key0 + "#order0")
        u = state_hat(D, 2, parity)
        h, v = u.data
        res = it.call(it.getattr(o, "step_fourier"), [u])
        for world in ("generic", "dc"):
            try:
                code = [_dc_atoms(SO.specialize(e, world), world) for e in res.data]
            except alg.AlgError as ex:
                ck.fail("wave", key0 + f"#step#{world}", loc(cls.find("step_fourier")), f"step is singular in the {world} world: {ex}")
                continue
            rh, rv = SP.wave_step(D, c, DT, L, h, v, world)
            ck.compare("wave", key0 + f"#step#{world}", loc(cls.find("step_fourier")), code, [as_poly(rh), as_poly(rv)], config={"D": D, "world": world})
        # inverse o forward = identity (both worlds)
        w = it.call(it.getattr(o, "_forward_transform"), [u])
        back = it.call(it.getattr(o, "_inverse_transform"), [w])
        for world in ("generic", "dc"):
            try:
                code = [SO.specialize(e, world) for e in back.data]
            except alg.AlgError as ex:
                ck.fail("wave", key0 + f"#roundtrip#{world}", loc(cls.find("_inverse_transform")), f"transform pair is singular in the {world} world: {ex}")
                continue
            ck.compare("wave", key0 + f"#roundtrip#{world}", loc(cls.find("_inverse_transform")), code, [h, v])
        # physical step = ifft(step_fourier(fft(u)))
        up = state_phys(D, 2)
        resp = it.call(it.getattr(o, "step"), [up])
        uh = Tens(u.shape, [SO.forward_entry(e, D) for e in up.data])
        sf = it.call(it.getattr(o, "step_fourier"), [uh])
        ref = Tens(up.shape, [SO.inverse_entry(e, D) for e in sf.data])
        ck.compare("step", key0 + "#step", loc(catalog.base_stepper(it).find("step")), resp, ref)


def _dc_atoms(p, world):
    """at the mean mode the representative spectrum entry *is* its DC value"""
    if world != "dc":
        def f(a):
            if a[0] == "dc":
                raise AnalysisBroken("DC access survives in the generic world")
            return None
        return alg.map_atoms(p, f) if any(a[0] == "dc" for a in p.all_atoms()) else p

    def g(a):
        if a[0] == "dc":
            return Poly.atom(a[1])
        return None

    return alg.map_atoms(p, g)
