"""C17 - radial spectrum: every mode lands in its documented bin with Parseval weights (DESIGN 3, C17)."""

from __future__ import annotations

import itertools
from fractions import Fraction as Fr

from vf import alg
from vf import symops as SO
from vf.alg import Poly, as_poly
from vf.harness import Check, new_interp, N, L, H_of, loc, AnalysisBroken, state_phys
from vf.interp import RepoRaise
from vf.tens import Tens
from specs import common as C

PROP = "C17"
LEVEL = "translation_validation"


def run(tier="quick", only_key=None):
    ck = Check(PROP, LEVEL, tier, only_key)
    ck.rule("spectrum-form", "get_spectrum: amplitude = |u^|/S_reconstruction, power = 1/2 |u^|^2/(S_reconstruction*S_norm_compensation); 1-D unbinned; otherwise entry (c, b) = sum (or mean) over the stored modes with b-1/2 <= |k| < b+1/2, bins b = 0..N//2, channels independent, shape (C, N//2+1)")
    rows = 0
    for parity in (0, 1):
        it = new_interp(ck.repo, parity=parity)
        sp = it.module("exponax._spectral").env
        try:
            gs = sp.get("get_spectrum")
            bsa = sp.get("build_scaling_array")
        except KeyError as e:
            raise AnalysisBroken(f"anchor vanished: {e}")
        Hs = H_of(parity)
        for D in (1, 2, 3):
            fshape = (N,) * (D - 1) + (Hs,)
            S_rec = C.scaling(D, "reconstruction", parity)
            S_norm = C.scaling(D, "norm_compensation", parity)
            kap = alg.sqrt(sum((k * k for k in C.kvec(D)), Poly()))
            b = Poly.atom(("k", 0, 1, "half"))  # the bin variable: the 1-D wavenumbers 0..N//2
            for Cn, power, binning in itertools.product((1, 2), (True, False), ("sum", "average")):
                u = state_phys(D, Cn)
                key = f"exponax._spectral.get_spectrum#D={D},C={Cn},power={power},binning={binning},Nparity={parity}"
                try:
                    res = it.call(gs, [u], {"power": power, "radial_binning": binning})
                except RepoRaise as e:
                    ck.fail("spectrum-form", key, f"{e.file}:{getattr(e.node, 'lineno', '?')}", f"raises {e.exc_name}")
                    continue
                rows += 1
                q = []
                for c in range(Cn):
                    a = alg.absval(C.fft(u.data[c], D))
                    mag = a / S_rec
                    q.append(Fr(1, 2) * mag * (a / S_norm) if power else mag)
                if D == 1:
                    ref = Tens((Cn, Hs), q)
                else:
                    mask = alg.ind("le", b - Fr(1, 2), kap) * alg.ind("lt", kap, b + Fr(1, 2))
                    ent = []
                    for c in range(Cn):
                        s = SO.sym_sum(mask * q[c], fshape)
                        if binning == "average":
                            s = s / SO.sym_sum(mask, fshape)
                        ent.append(s)
                    ref = Tens((Cn, Hs), ent)
                ck.compare("spectrum-form", key, loc(gs), res, ref, config={"D": D, "C": Cn, "power": power, "binning": binning})
    ck.floor("rows", rows, 40)
    ck.assumptions += ["the scaling arrays are those of build_scaling_array (their per-mode table is decided by C04)", "nansum/nanmean(where=mask) = sum / mean over the masked entries", "numeric Parseval identity not decided"]
    return ck.finish(
        explanation="get_spectrum is interpreted for D in {1,2,3}, C in {1,2}, power/amplitude, sum/average binning, N even/odd with a symbolic state; the scan over the radial bins is evaluated once on the bin variable and the result (shape, weights, half-open bucket predicate with its strictness, reducer, channel map) is compared by normal form with the documented formula.",
        rule_text="one program = (D, C, power, binning, parity)",
        trusted=["CPython ast", "vf normal forms", "lax.scan / vmap / nansum semantics"],
    )
