"""C18 - initial-condition generators honour their documented contract (DESIGN 3, C18)."""

from __future__ import annotations

import ast
import itertools
from fractions import Fraction as Fr

from vf import alg, catalog
from vf import symops as SO
from vf.alg import Poly, as_poly
from vf.harness import Check, new_interp, N, L, H_of, loc, AnalysisBroken
from vf.interp import RepoRaise, KeyVal, Obj, ClassVal
from vf.tens import Tens, ShapeError
from specs import common as C

PROP = "C18"
LEVEL = "other"
S = Poly.sym
KEY = KeyVal(("root",))

VALID_FLAGS = [(True, False, False), (True, True, False), (True, False, True), (False, False, False), (False, False, True)]
INVALID_FLAGS = [(False, True, False), (True, True, True), (False, True, True)]


def normalize(x, grid, zero_mean, std_one, max_one):
    """documented order (normalize_ic docstring): subtract the mean, then divide by the std, then by max|.|"""
    if zero_mean:
        x = x - SO.sym_mean(x, grid)
    if std_one:
        x = x / SO.sym_stat("Std", x, grid)
    if max_one:
        x = x / SO.sym_stat("Max", alg.absval(x), grid)
    return x


def draws_in(t):
    out = set()
    for e in t.data:
        for a in e.all_atoms():
            if a[0] == "draw":
                out.add(a)
    return out


def noise_atom(t):
    ns = [a for a in draws_in(t) if a[1] == "normal" and a[4] == "A"]
    if len(ns) != 1:
        return None
    return Poly.atom(ns[0])


def run(tier="quick", only_key=None):
    ck = Check(PROP, LEVEL, tier, only_key)
    ck.rule("shape", "every generator returns shape (1,)+(N,)*D (multi-channel wrapper: one channel per sub-generator)")
    ck.rule("key-discipline", "every random draw takes a key derived from the `key` argument by splitting; no key is used twice; no other entropy source")
    ck.rule("validation", "zero_mean=False with std_one=True, and std_one with max_one, are rejected by every class offering these options")
    ck.rule("draw-ranges", "every random parameter of the function-form generators is lo + (hi - lo) * U with U a fresh uniform draw and (lo, hi) the documented option: blob positions / variances in position_range / variance_range times the domain extent, discontinuity limits = min/max of two U(0, L) draws and values in value_range, sine amplitudes / phases / offset in their ranges and wavenumbers 1..cutoff")
    ck.rule("formula", "documented formulas: normalisation order, offset = mean, cutoff mask, power-law amplitude, diffusion, blobs, sine waves, discontinuities, clamping, scaling")
    ck.rule("function-form", "evaluating the function form gen_ic_fun(key) on the grid equals the sampled form __call__(N, key)")
    rows = 0
    n_draw_sites = 0
    # ---- syntactic: entropy sources and draw sites
    for rel, src in ck.repo.files.items():
        if "/ic/" not in rel and not rel.endswith("_utils.py"):
            continue
        tree = ast.parse(src)
        for n in ast.walk(tree):
            if isinstance(n, ast.Call):
                f = ast.unparse(n.func)
                if f.startswith(("jr.", "jax.random.")) and f.split(".")[-1] in ("uniform", "normal", "randint", "bernoulli", "choice", "permutation"):
                    n_draw_sites += 1
                if f.startswith(("np.random", "numpy.random", "random.", "time.", "os.urandom")) or f.split(".")[-1] in ("PRNGKey",) or f in ("jr.key", "jax.random.key"):
                    ck.fail("key-discipline", f"{rel}#entropy#{f}", f"{rel}:{n.lineno}", f"entropy source {f} inside the library: results are not a function of the caller's key")
    ck.floor("random draw sites", n_draw_sites, 10)
    for parity in (0, 1) if tier == "thorough" else (0,):
        it = new_interp(ck.repo, parity=parity, stub_etdrk="nonlinear")
        icm = it.module("exponax.ic").env
        names = dict(catalog.all_list(it, "exponax.ic"))
        ck.floor("public ic names", len(names), 17)

        def gen(name):
            if name not in names:
                raise AnalysisBroken(f"exponax.ic.{name} vanished")
            return names[name]

        def call_gen(g, keyv=KEY):
            it.ctx.key_uses.clear()
            it.ctx.events.clear()
            r = it.call(g, [N], {"key": keyv})
            reuse = [e for e in it.ctx.events if e["kind"] == "key-reuse"]
            return r, reuse

        for D in (1, 2, 3):
            grid = (N,) * D
            tag = f"D={D},Nparity={parity}"
            fshape = (N,) * (D - 1) + (H_of(parity),)
            cases = []
            # ---------------- spectral generators with normalisation flags
            for zm, so, mo in VALID_FLAGS:
                fl = f"zero_mean={zm},std_one={so},max_one={mo}"
                # GaussianRandomField
                def grf_ref(noise, zm=zm, so=so, mo=mo):
                    kap = alg.sqrt(sum(((2 * alg.PI / L * k) ** 2 for k in C.kvec(D)), Poly()))
                    delta = Poly.atom(("ind", "dc", D))
                    amp = (1 - delta) * (kap ** as_poly(-S("alpha") / 2)) + delta
                    x = C.ifft(amp * C.fft(noise, D), D)
                    return [normalize(x, grid, zm, so, mo)]

                cases.append((f"GaussianRandomField#{fl}", lambda zm=zm, so=so, mo=mo: it.call(gen("GaussianRandomField"), [D], {"domain_extent": L, "powerlaw_exponent": S("alpha"), "zero_mean": zm, "std_one": so, "max_one": mo}), grf_ref))

                def dn_ref(noise, zm=zm, so=so, mo=mo):
                    lam = S("nu") * sum((d * d for d in C.deriv(D, L)), Poly())
                    x = C.ifft(alg.exp(lam) * C.fft(noise, D), D)
                    return [normalize(x, grid, zm, so, mo)]

                cases.append((f"DiffusedNoise#{fl}", lambda zm=zm, so=so, mo=mo: it.call(gen("DiffusedNoise"), [D], {"domain_extent": L, "intensity": S("nu"), "zero_mean": zm, "std_one": so, "max_one": mo}), dn_ref))
            # truncated Fourier series: zero_mean is implied by offset_range == (0, 0)
            for (o0, o1), so, mo in (((Fr(0), Fr(0)), False, False), ((Fr(0), Fr(0)), True, False), ((Fr(0), Fr(0)), False, True), ((S("o0"), S("o1")), False, False), ((S("o0"), S("o1")), False, True)):
                def tfs_ref(noise, res, o0=o0, o1=o1, so=so, mo=mo):
                    us = sorted([a for a in draws_in(res) if a[1] == "uniform"], key=repr)
                    zero = (o0, o1) == (Fr(0), Fr(0))
                    offset = as_poly(o0)
                    if us:
                        offset = as_poly(o0) + (as_poly(o1) - as_poly(o0)) * Poly.atom(us[0])
                    delta = Poly.atom(("ind", "dc", D))
                    # documented: "offset" is the mean of the field -> the mean mode holds offset * N^D
                    spec = (1 - delta) * C.lowpass(D, S("cut")) * C.fft(noise, D) + delta * offset * N**D
                    x = C.ifft(spec, D)
                    return [normalize(x, grid, zero, so, mo)]

                cases.append((f"RandomTruncatedFourierSeries#offset_range=({o0},{o1}),std_one={so},max_one={mo}", lambda o0=o0, o1=o1, so=so, mo=mo: it.call(gen("RandomTruncatedFourierSeries"), [D], {"cutoff": S("cut"), "offset_range": (o0, o1), "std_one": so, "max_one": mo}), tfs_ref))
            cases.append(("WhiteNoise", lambda: it.call(gen("WhiteNoise"), [D], {"std": S("sd")}), lambda noise: [S("sd") * noise]))
            for label, mk, ref in cases:
                key = f"exponax.ic.{label},{tag}"
                try:
                    g = mk()
                    res, reuse = call_gen(g)
                except RepoRaise as e:
                    ck.fail("formula", key, f"{e.file}:{getattr(e.node, 'lineno', '?')}", f"raises {e.exc_name} in a documented configuration")
                    continue
                rows += 1
                at = loc(g.cls.find("__call__"))
                _shape(ck, key, at, res, (1,) + grid)
                _reuse(ck, key, reuse)
                noise = noise_atom(res)
                if noise is None:
                    ck.fail("formula", key, at, "result does not depend on exactly one white-noise draw")
                    continue
                try:
                    r = ref(noise, res) if ref.__code__.co_argcount - len(ref.__defaults__ or ()) == 2 else ref(noise)
                except TypeError:
                    r = ref(noise)
                if res.shape == (1,) + grid:
                    ck.compare("formula", key, at, list(res.data), [as_poly(x) for x in r], what="generated field differs from the documented construction")
            # ---------------- function-form classes with symbolic fields
            x = it.call(it.module("exponax._utils").env.get("make_grid"), [D, L, N])
            xs = list(x.data)
            # Discontinuities
            Disc = it.module("exponax.ic._discontinuities").env.get("Discontinuity")
            Discs = gen("Discontinuities")
            for zm, so, mo in VALID_FLAGS:
                ds = []
                refsum = Poly()
                for d in range(2):
                    lo = tuple(S(f"lo{d}{j}") for j in range(D))
                    hi = tuple(S(f"hi{d}{j}") for j in range(D))
                    ds.append(it.call(Disc, [], {"lower_limits": lo, "upper_limits": hi, "value": S(f"val{d}")}))
                    ind = Poly.const(1)
                    for j in range(D):
                        ind = ind * alg.ind("lt", lo[j], xs[j]) * alg.ind("lt", xs[j], hi[j])
                    refsum = refsum + S(f"val{d}") * ind
                key = f"exponax.ic.Discontinuities#zero_mean={zm},std_one={so},max_one={mo},{tag}"
                o = it.call(Discs, [tuple(ds)], {"zero_mean": zm, "std_one": so, "max_one": mo})
                res = it.call(o, [x])
                at = loc(Disc.find("__call__"))
                rows += 1
                if _shape(ck, key, at, res, (1,) + grid, what="a discontinuity field must have ONE channel; the indicator mask is built with the shape of the D-channel grid"):
                    ck.compare("formula", key, at, list(res.data), [normalize(refsum, grid, zm, so, mo)])
            # GaussianBlobs
            Blob = it.module("exponax.ic._gaussian_blob").env.get("GaussianBlob")
            for comp in (False, True):
                blobs = []
                tot = Poly()
                for b in range(2):
                    pos = Tens((D,), [S(f"p{b}{j}") for j in range(D)])
                    var = [S(f"s{b}{j}") for j in range(D)]
                    cov = Tens((D, D), [var[i] if i == j else Poly() for i in range(D) for j in range(D)])
                    blobs.append(it.call(Blob, [pos, cov], {"one_complement": comp}))
                    q = sum(((xs[j] - pos.data[j]) ** 2 / var[j] for j in range(D)), Poly())
                    e = alg.exp(-Fr(1, 2) * q)
                    tot = tot + ((1 - e) if comp else e)
                key = f"exponax.ic.GaussianBlobs#one_complement={comp},{tag}"
                o = it.call(gen("GaussianBlobs"), [tuple(blobs)])
                res = it.call(o, [x])
                rows += 1
                if _shape(ck, key, loc(Blob.find("__call__")), res, (1,) + grid):
                    ck.compare("formula", key, loc(Blob.find("__call__")), list(res.data), [tot / 2])
            # MultiChannelIC / ScaledIC
            b0 = it.call(gen("GaussianBlobs"), [tuple(blobs[:1])])
            b1 = it.call(gen("GaussianBlobs"), [tuple(blobs[1:])])
            mc = it.call(gen("MultiChannelIC"), [(b0, b1)])
            res = it.call(mc, [x])
            key = f"exponax.ic.MultiChannelIC#{tag}"
            if _shape(ck, key, loc(gen("MultiChannelIC").find("__call__")), res, (2,) + grid):
                ck.compare("formula", key, loc(gen("MultiChannelIC").find("__call__")), list(res.data), [it.call(b0, [x]).data[0], it.call(b1, [x]).data[0]])
            sc = it.call(gen("ScaledIC"), [], {"ic": b0, "scale": S("sc")})
            res = it.call(sc, [x])
            key = f"exponax.ic.ScaledIC#{tag}"
            if _shape(ck, key, loc(gen("ScaledIC").find("__call__")), res, (1,) + grid):
                ck.compare("formula", key, loc(gen("ScaledIC").find("__call__")), list(res.data), [it.call(b0, [x]).data[0] * S("sc")])
            rows += 2
            # ---------------- random function-form generators: sampled == function form, shapes, keys
            rnd = [
                ("RandomDiscontinuities", lambda: it.call(gen("RandomDiscontinuities"), [D], {"domain_extent": L, "num_discontinuities": 2, "value_range": (S("v0"), S("v1"))})),
                ("RandomGaussianBlobs", lambda: it.call(gen("RandomGaussianBlobs"), [D], {"domain_extent": L, "num_blobs": 2})),
            ]
            for nm, mk in rnd:
                g = mk()
                key = f"exponax.ic.{nm}#{tag}"
                at = loc(g.cls.find("gen_ic_fun"))
                try:
                    res, reuse = call_gen(g)
                    fun = it.call(it.getattr(g, "gen_ic_fun"), [], {"key": KEY})
                    res2 = it.call(fun, [x])
                except RepoRaise as e:
                    ck.fail("function-form", key, f"{e.file}:{getattr(e.node, 'lineno', '?')}", f"raises {e.exc_name}")
                    continue
                rows += 1
                _reuse(ck, key, reuse)
                _shape(ck, key, at, res, (1,) + grid, what="one channel per generated field expected")
                if res.shape == res2.shape and res.data == res2.data:
                    ck.ok("function-form", key + "#function-form")
                else:
                    ck.fail("function-form", key + "#function-form", at, "sampled form differs from gen_ic_fun(key)(grid)")
            _draw_ranges(ck, it, gen, D, tag, KEY)
            # wrappers
            inner = lambda: it.call(gen("RandomGaussianBlobs"), [D], {"domain_extent": L, "num_blobs": 1})
            g = it.call(gen("ScaledICGenerator"), [inner(), S("sc")])
            res, reuse = call_gen(g)
            base, _ = call_gen(inner())
            key = f"exponax.ic.ScaledICGenerator#{tag}"
            _reuse(ck, key, reuse)
            if _shape(ck, key, loc(g.cls.find("__call__")), res, (1,) + grid):
                ck.compare("formula", key, loc(g.cls.find("__call__")), list(res.data), [base.data[0] * S("sc")])
            fun = it.call(it.getattr(g, "gen_ic_fun"), [], {"key": KEY})
            res2 = it.call(fun, [x])
            (ck.ok if res2.data == res.data else lambda *a: ck.fail(*a, loc(g.cls.find("gen_ic_fun")), "ScaledICGenerator: function form differs from the sampled form"))("function-form", key + "#function-form")
            g = it.call(gen("ClampingICGenerator"), [inner(), (S("lo"), S("hi"))])
            res, reuse = call_gen(g)
            key = f"exponax.ic.ClampingICGenerator#{tag}"
            _reuse(ck, key, reuse)
            if _shape(ck, key, loc(g.cls.find("__call__")), res, (1,) + grid):
                y = base.data[0]
                y0 = y - SO.sym_stat("Min", y, grid)
                ck.compare("formula", key, loc(g.cls.find("__call__")), list(res.data), [y0 / SO.sym_stat("Max", y0, grid) * (S("hi") - S("lo")) + S("lo")])
            g = it.call(gen("RandomMultiChannelICGenerator"), [(inner(), inner(), inner())])
            res, reuse = call_gen(g)
            key = f"exponax.ic.RandomMultiChannelICGenerator#{tag}"
            _reuse(ck, key, reuse)
            _shape(ck, key, loc(g.cls.find("__call__")), res, (3,) + grid)
            fun = it.call(it.getattr(g, "gen_ic_fun"), [], {"key": KEY})
            res2 = it.call(fun, [x])
            if res2.shape == res.shape and res2.data == res.data:
                ck.ok("function-form", key + "#function-form")
            else:
                ck.fail("function-form", key + "#function-form", loc(g.cls.find("gen_ic_fun")), "function form (gen_ic_fun) and sampled form (__call__) derive their keys / fields differently")
            chans = [repr(sorted(map(repr, draws_in(Tens((1,), [e]))))) for e in res.data]
            if len(set(chans)) == len(chans):
                ck.ok("key-discipline", key + "#independent-channels")
            else:
                ck.fail("key-discipline", key + "#independent-channels", loc(g.cls.find("__call__")), "two channels are generated from the same key")
            rows += 3
        # ---------------- 1-D sine waves
        x1 = it.call(it.module("exponax._utils").env.get("make_grid"), [1, L, N])
        for off, so, mo in ((S("off"), False, False), (Fr(0), True, False), (S("off"), False, True), (Fr(0), False, False)):
            amps = (S("a0"), S("a1"))
            ks = (1, 2)
            ph = (S("ph0"), S("ph1"))
            o = it.call(gen("SineWaves1d"), [L, amps, ks, ph], {"offset": off, "std_one": so, "max_one": mo})
            res = it.call(o, [x1])
            r = sum((amps[i] * alg.fn("sin", ks[i] * (2 * alg.PI / L) * x1.data[0] + ph[i]) for i in range(2)), Poly()) + as_poly(off)
            if so:
                r = r / SO.sym_stat("Std", r, (N,))
            if mo:
                r = r / SO.sym_stat("Max", alg.absval(r), (N,))
            key = f"exponax.ic.SineWaves1d#offset={off},std_one={so},max_one={mo},Nparity={parity}"
            if _shape(ck, key, loc(gen("SineWaves1d").find("__call__")), res, (1, N)):
                ck.compare("formula", key, loc(gen("SineWaves1d").find("__call__")), list(res.data), [r])
            rows += 1
        g = it.call(gen("RandomSineWaves1d"), [1], {"domain_extent": L, "cutoff": 2})
        res, reuse = call_gen(g)
        key = f"exponax.ic.RandomSineWaves1d#Nparity={parity}"
        _reuse(ck, key, reuse)
        _shape(ck, key, loc(g.cls.find("gen_ic_fun")), res, (1, N))
        # ---------------- validation guards
        guard_targets = [
            ("RandomTruncatedFourierSeries", lambda zm, so, mo: it.call(gen("RandomTruncatedFourierSeries"), [1], {"offset_range": (Fr(0), Fr(0)) if zm else (Fr(0), Fr(1)), "std_one": so, "max_one": mo}), True),
            ("GaussianRandomField", lambda zm, so, mo: it.call(gen("GaussianRandomField"), [1], {"zero_mean": zm, "std_one": so, "max_one": mo}), True),
            ("DiffusedNoise", lambda zm, so, mo: it.call(gen("DiffusedNoise"), [1], {"zero_mean": zm, "std_one": so, "max_one": mo}), True),
            ("Discontinuities", lambda zm, so, mo: it.call(gen("Discontinuities"), [()], {"zero_mean": zm, "std_one": so, "max_one": mo}), True),
            ("RandomDiscontinuities", lambda zm, so, mo: it.call(gen("RandomDiscontinuities"), [1], {"zero_mean": zm, "std_one": so, "max_one": mo}), True),
            ("SineWaves1d", lambda zm, so, mo: it.call(gen("SineWaves1d"), [L, (), (), ()], {"offset": Fr(0) if zm else Fr(1), "std_one": so, "max_one": mo}), True),
            ("RandomSineWaves1d", lambda zm, so, mo: it.call(gen("RandomSineWaves1d"), [1], {"offset_range": (Fr(0), Fr(0)) if zm else (Fr(0), Fr(1)), "std_one": so, "max_one": mo}), True),
        ]
        nguard = 0
        for nm, mk, _ in guard_targets:
            for zm, so, mo in INVALID_FLAGS:
                key = f"exponax.ic.{nm}#reject(zero_mean={zm},std_one={so},max_one={mo}),Nparity={parity}"
                try:
                    mk(zm, so, mo)
                    ck.fail("validation", key, loc(gen(nm).find("__init__")), "documented-invalid option combination is accepted")
                except RepoRaise as e:
                    if e.exc_name == "ValueError":
                        ck.ok("validation", key)
                        nguard += 1
                    else:
                        ck.fail("validation", key, loc(gen(nm).find("__init__")), f"raises {e.exc_name} instead of ValueError")
            for zm, so, mo in VALID_FLAGS[:3]:
                key = f"exponax.ic.{nm}#accept(zero_mean={zm},std_one={so},max_one={mo}),Nparity={parity}"
                try:
                    mk(zm, so, mo)
                    ck.ok("validation", key)
                except RepoRaise as e:
                    ck.fail("validation", key, f"{e.file}:{getattr(e.node, 'lineno', '?')}", f"valid option combination raises {e.exc_name}")
        try:
            it.call(gen("RandomSineWaves1d"), [2], {})
            ck.fail("validation", f"exponax.ic.RandomSineWaves1d#D=2,Nparity={parity}", loc(gen("RandomSineWaves1d").find("__init__")), "RandomSineWaves1d accepts D=2")
        except RepoRaise as e:
            ck.ok("validation", f"exponax.ic.RandomSineWaves1d#D=2,Nparity={parity}")
    ck.floor("rows", rows, 60)
    ck.assumptions += ["statistical statements about sampled values are NOT decided", "Std/Max/Min over the grid are uninterpreted reductions; the checks decide which expression they are applied to and in which order", "documented meaning of `offset`: the spatial mean of the generated field"]
    return ck.finish(
        explanation="Every public generator and function-form class of exponax.ic is interpreted for D in {1,2,3} with a key carrying its derivation lineage: the result's channel count and spatial shape, the lineage of every random draw (no reuse, channels independent), the documented construction formulas (cutoff mask, offset as mean, power-law shaping, diffusion, blobs, sine series, discontinuities, clamping, scaling, normalisation order), the equality of function form and sampled form, and the rejection of documented-invalid option combinations are decided on canonical forms.",
        rule_text="rule instances = (class, D, option row) per rule; distinct = distinct canonical forms / keys",
        trusted=["CPython ast", "vf normal forms", "jax.random split/uniform/normal modelled as lineage-tagged draws"],
    )


def _draws_of(p):
    return sorted({a for a in as_poly(p).all_atoms() if a[0] == "draw"}, key=repr)


def _affine(p, lo, hi, used):
    """p == lo + (hi - lo) * U for a single, not yet used, uniform draw U; returns an error text or None"""
    ds = _draws_of(p)
    if len(ds) != 1:
        return f"expected exactly one random draw, found {len(ds)} in {alg.fmt(as_poly(p))[:120]}"
    u = ds[0]
    if u[1] != "uniform":
        return f"draw is {u[1]}, documented as uniform"
    if u in used:
        return "the same random draw is used for two parameters"
    used.add(u)
    want = as_poly(lo) + (as_poly(hi) - as_poly(lo)) * Poly.atom(u)
    if as_poly(p) != want:
        return f"{alg.fmt(as_poly(p))[:160]} is not lo + (hi - lo)*U with lo = {alg.fmt(as_poly(lo))}, hi = {alg.fmt(as_poly(hi))}"
    return None


def _draw_ranges(ck, it, gen, D, tag, KEY):
    p0, p1, q0, q1, v0, v1 = (S(n) for n in ("p0", "p1", "q0", "q1", "v0", "v1"))
    # --- Gaussian blobs
    cls = gen("RandomGaussianBlobs")
    g = it.call(cls, [D], {"domain_extent": L, "num_blobs": 2, "position_range": (p0, p1), "variance_range": (q0, q1)})
    at = loc(cls.find("gen_blob") or cls.find("gen_ic_fun"))
    obj = it.call(it.getattr(g, "gen_ic_fun"), [], {"key": KEY})
    used, errs = set(), []
    blobs = obj.f.get("blob_list")
    if not isinstance(blobs, (tuple, list)) or len(blobs) != 2:
        errs.append(f"num_blobs=2 yields {len(blobs) if isinstance(blobs, (tuple, list)) else blobs} blobs")
    else:
        for b in blobs:
            pos, cov = b.f.get("position"), b.f.get("covariance")
            if tuple(pos.shape) != (D,) or tuple(cov.shape) != (D, D):
                errs.append(f"blob position / covariance have shapes {pos.shape} / {cov.shape}")
                continue
            for j in range(D):
                errs.append(_affine(pos.data[j], L * p0, L * p1, used))
                errs.append(_affine(cov.data[j * D + j], L * q0, L * q1, used))
                for i in range(D):
                    if i != j and not as_poly(cov.data[j * D + i]).is_zero():
                        errs.append("covariance is not diagonal")
    _report(ck, f"exponax.ic.RandomGaussianBlobs#{tag}", at, errs)
    # --- discontinuities
    cls = gen("RandomDiscontinuities")
    g = it.call(cls, [D], {"domain_extent": L, "num_discontinuities": 2, "value_range": (v0, v1)})
    at = loc(cls.find("gen_discontinuity") or cls.find("gen_ic_fun"))
    obj = it.call(it.getattr(g, "gen_ic_fun"), [], {"key": KEY})
    used, errs = set(), []
    ds = obj.f.get("discontinuity_list")
    if not isinstance(ds, (tuple, list)) or len(ds) != 2:
        errs.append("num_discontinuities=2 does not yield two discontinuities")
    else:
        for d in ds:
            lo_l, up_l = d.f.get("lower_limits"), d.f.get("upper_limits")
            if len(lo_l) != D or len(up_l) != D:
                errs.append(f"{len(lo_l)} / {len(up_l)} limits for D={D}")
                continue
            for j in range(D):
                lo_e, up_e = as_poly(_item(lo_l[j])), as_poly(_item(up_l[j]))
                la = [a for a in lo_e.atoms() if a[0] == "fn"]
                ua = [a for a in up_e.atoms() if a[0] == "fn"]
                if lo_e != Poly.atom(la[0]) if len(la) == 1 else True:
                    errs.append(f"lower limit {alg.fmt(lo_e)[:120]} is not the minimum of two draws")
                    continue
                if up_e != Poly.atom(ua[0]) if len(ua) == 1 else True:
                    errs.append(f"upper limit {alg.fmt(up_e)[:120]} is not the maximum of two draws")
                    continue
                if la[0][1] != "minimum" or ua[0][1] != "maximum" or sorted(map(repr, la[0][2:])) != sorted(map(repr, ua[0][2:])):
                    errs.append("lower / upper limits are not min / max of the same pair of draws")
                    continue
                for arg in la[0][2:]:
                    errs.append(_affine(arg, Poly(), L, used))
            errs.append(_affine(_item(d.f.get("value")), v0, v1, used))
    _report(ck, f"exponax.ic.RandomDiscontinuities#{tag}", at, errs)
    # --- sine waves (1-D only)
    if D == 1:
        cls = gen("RandomSineWaves1d")
        a0, a1, f0, f1, o0, o1 = (S(n) for n in ("a0", "a1", "f0", "f1", "o0", "o1"))
        g = it.call(cls, [1], {"domain_extent": L, "cutoff": 3, "amplitude_range": (a0, a1), "phase_range": (f0, f1), "offset_range": (o0, o1)})
        at = loc(cls.find("gen_ic_fun"))
        obj = it.call(it.getattr(g, "gen_ic_fun"), [], {"key": KEY})
        used, errs = set(), []
        amp, ph, wn, off = (obj.f.get(n) for n in ("amplitudes", "phases", "wavenumbers", "offset"))
        if tuple(amp.shape) != (3,) or tuple(ph.shape) != (3,) or tuple(wn.shape) != (3,):
            errs.append(f"cutoff=3 yields {amp.shape} amplitudes, {ph.shape} phases, {wn.shape} wavenumbers")
        else:
            for j in range(3):
                errs.append(_affine(amp.data[j], a0, a1, used))
                errs.append(_affine(ph.data[j], f0, f1, used))
                if as_poly(wn.data[j]) != Poly.const(j + 1):
                    errs.append(f"wavenumber {j} is {wn.data[j]}, documented 1..cutoff")
            errs.append(_affine(_item(off), o0, o1, used))
        if obj.f.get("domain_extent") != L:
            errs.append("domain_extent not forwarded to the function form")
        _report(ck, f"exponax.ic.RandomSineWaves1d#{tag}", at, errs)


def _item(x):
    if isinstance(x, Tens):
        return x.data[0]
    return x


def _report(ck, key, at, errs):
    errs = [e for e in errs if e]
    if errs:
        ck.fail("draw-ranges", key, at, "; ".join(sorted(set(errs)))[:600])
    else:
        ck.ok("draw-ranges", key)


def _shape(ck, key, at, res, want, what=None):
    want = tuple(want)
    if isinstance(res, Tens) and tuple(res.shape) == want:
        ck.ok("shape", key + "#shape", form=(key, str(res.shape)))
        return True
    ck.fail("shape", key + "#shape", at, f"result has shape {tuple(str(d) for d in getattr(res, 'shape', ()))}, documented {tuple(str(d) for d in want)}" + (f": {what}" if what else ""))
    return False


def _reuse(ck, key, reuse):
    if reuse:
        ck.fail("key-discipline", key + "#keys", f"{reuse[0]['file']}:{reuse[0]['line']}", f"a PRNG key is consumed twice: {reuse[0]['detail']}")
    else:
        ck.ok("key-discipline", key + "#keys")
