"""C20 - malformed states and unsupported configurations are rejected, not accepted (DESIGN 3, C20)."""

from __future__ import annotations

import ast

from vf import alg, catalog
from vf.alg import Poly, as_poly
from vf.harness import Check, new_interp, N, L, DT, M, R, H_of, loc, AnalysisBroken, state_phys, state_hat
from vf.interp import RepoRaise, Obj, KeyVal, AnalysisError
from vf.tens import Tens, ShapeError
from specs import common as C

PROP = "C20"
LEVEL = "other"
S = Poly.sym


def expect_value_error(ck, rule, key, at, thunk, what):
    try:
        thunk()
    except RepoRaise as e:
        if e.exc_name == "ValueError":
            ck.ok(rule, key, form=(key, f"{e.file}:{getattr(e.node, 'lineno', 0)}"))
            return True
        ck.fail(rule, key, f"{e.file}:{getattr(e.node, 'lineno', '?')}", f"{what}: raises {e.exc_name} instead of ValueError")
        return False
    except ShapeError as e:
        where = getattr(e, "_loc", None)
        ck.fail(rule, key, f"{where[0]}:{where[1]}" if where else at, f"{what}: not rejected by a guard - fails later inside array code ({e})")
        return False
    except AnalysisError as e:
        ck.fail(rule, key, e.where(), f"{what}: not rejected by a guard - fails later inside array code ({e.msg[:160]})")
        return False
    ck.fail(rule, key, at, f"{what}: accepted (no ValueError)")
    return False


def identity_step_stub(interp, args, kwargs):
    return args[1]


TWO_CHANNEL = {"Wave", "GrayScott"}
VELOCITY_3D = {"NavierStokesVelocity", "KolmogorovFlowVelocity"}


def _documented_channels(cls, D, flags):
    """channel count of the documented state (class docstrings / stepper overview)"""
    if "single_channel" in flags:
        return 1 if flags["single_channel"] else D
    if cls.name in TWO_CHANNEL:
        return 2
    if cls.name in VELOCITY_3D:
        return 3
    return 1


def run(tier="quick", only_key=None):
    ck = Check(PROP, LEVEL, tier, only_key)
    ck.rule("call-guard", "__call__ of every exported stepper (and RepeatedStepper, Poisson) rejects a state with a wrong channel count, an extra batch axis, a missing axis or unequal axis lengths with ValueError, and accepts the correct shape returning the same shape")
    ck.rule("channels", "the state every exported stepper accepts has the documented number of channels: 1 for the scalar equations, D (or 1 with single_channel=True) for the vector convection family, 2 for the wave (height, velocity) and Gray-Scott systems, 3 for the 3-D velocity formulation")
    ck.rule("call-override", "no exported stepper overrides __call__ without a shape guard (who-may-override)")
    ck.rule("operator-shape", "BaseStepper.__init__ rejects a linear operator whose shape is neither (1,...) nor (C,...)")
    ck.rule("restriction", "documented dimension / parity / option restrictions raise ValueError")
    it = new_interp(ck.repo, parity=0, stub_etdrk="symbolic")
    it.ctx.opaque_nonlinear = True
    steppers = catalog.exported_steppers(it)
    ck.floor("exported steppers", len(steppers), 30)
    base = catalog.base_stepper(it)
    base_call = base.find("__call__")
    if base_call is None:
        raise AnalysisBroken("BaseStepper.__call__ vanished")
    n_call = 0
    for pub, cls in steppers:
        own = cls.find("__call__")
        key = f"{cls.qual}#call-resolves-to"
        if own is base_call:
            ck.ok("call-override", key)
        else:
            ck.notes.append(f"{pub} overrides __call__ ({loc(own)}): its guard is exercised below like any other")
            ck.ok("call-override", key + "#override-exercised")
        dims, rej = catalog.allowed_dims(it, cls)
        for D in dims:
            for fl in (list(catalog.flag_rows(cls)) or [{}]):
                if "single_channel" not in fl and fl != (list(catalog.flag_rows(cls)) or [{}])[0]:
                    continue
                of = catalog.build(it, cls, D, **fl)
                want = _documented_channels(cls, D, fl)
                ckey = f"{cls.qual}#channels#D={D},{ {k: v for k, v in fl.items() if k == 'single_channel'} }"
                if of.f["num_channels"] == want:
                    ck.ok("channels", ckey)
                else:
                    ck.fail("channels", ckey, loc(cls.find("__init__")), f"{pub} in {D}D expects states with {of.f['num_channels']} channel(s); the documented state has {want}")
            o = catalog.build(it, cls, D)
            Cn = o.f["num_channels"]
            at = loc(own)
            kb = f"{cls.qual}.__call__#D={D}"
            good = state_phys(D, Cn)
            try:
                r = it.call(o, [good])
                if isinstance(r, Tens) and r.shape == good.shape:
                    ck.ok("call-guard", kb + "#accepts-correct-shape")
                else:
                    ck.fail("call-guard", kb + "#accepts-correct-shape", at, f"correct state of shape {good.shape} returns shape {getattr(r, 'shape', None)}")
            except RepoRaise as e:
                ck.fail("call-guard", kb + "#accepts-correct-shape", f"{e.file}:{getattr(e.node, 'lineno', '?')}", f"a correctly shaped state is rejected with {e.exc_name}")
            n_call += 1
            bads = {
                "wrong-channel-count": Tens((Cn + 1,) + (N,) * D, [Poly.atom(("u", "u", c, "P")) for c in range(Cn + 1)]),
                "extra-batch-axis": Tens((1, Cn) + (N,) * D, [Poly.atom(("u", "u", c, "P")) for c in range(Cn)]),
                "missing-axis": Tens((Cn,) + (N,) * (D - 1), [Poly.atom(("u", "u", c, "P")) for c in range(Cn)]) if D > 1 else Tens((N,), [Poly.atom(("u", "u", 0, "P"))]),
                "other-resolution": Tens((Cn,) + (N + 1,) * D, [Poly.atom(("u", "u", c, "P")) for c in range(Cn)]),
            }
            if D > 1:
                bads["unequal-axis-lengths"] = Tens((Cn,) + (N,) * (D - 1) + (N + 1,), [Poly.atom(("u", "u", c, "P")) for c in range(Cn)])
            if Cn > 1:
                bads["single-channel-for-multi-channel"] = Tens((1,) + (N,) * D, [Poly.atom(("u", "u", 0, "P"))])
            for label, bad in bads.items():
                expect_value_error(ck, "call-guard", kb + f"#{label}", at, lambda: it.call(o, [bad]), f"state of shape {tuple(str(d) for d in bad.shape)} for a stepper expecting {tuple(str(d) for d in good.shape)}")
    ck.floor("stepper x dimension rows", n_call, 80)
    # ---- RepeatedStepper / Poisson
    it.ctx.scan_term_mode = True
    RS = it.module("exponax._repeated_stepper").env.get("RepeatedStepper")
    Po = it.module("exponax._poisson").env.get("Poisson")
    Diff = it.module("exponax.stepper").env.get("Diffusion")
    for D in (1, 2, 3):
        inner = catalog.build(it, Diff, D)
        rs = it.call(RS, [inner, S("n")])
        kb = f"{RS.qual}.__call__#D={D}"
        try:
            it.call(rs, [state_phys(D, 1)])
            ck.ok("call-guard", kb + "#accepts-correct-shape")
        except RepoRaise as e:
            ck.fail("call-guard", kb + "#accepts-correct-shape", f"{e.file}:{getattr(e.node, 'lineno', '?')}", f"correct state rejected with {e.exc_name}")
        for label, bad in (("wrong-channel-count", state_phys(D, 2)), ("extra-batch-axis", Tens((1, 1) + (N,) * D, [Poly.atom(("u", "u", 0, "P"))])), ("other-resolution", Tens((1,) + (N + 1,) * D, [Poly.atom(("u", "u", 0, "P"))]))):
            expect_value_error(ck, "call-guard", kb + f"#{label}", loc(RS.find("__call__")), lambda: it.call(rs, [bad]), f"state of shape {tuple(str(d) for d in bad.shape)}")
        po = it.call(Po, [D, L, N])
        kb = f"{Po.qual}.__call__#D={D}"
        try:
            r = it.call(po, [state_phys(D, 2)])
            ck.ok("call-guard", kb + "#accepts-correct-shape")
        except RepoRaise as e:
            ck.fail("call-guard", kb + "#accepts-correct-shape", f"{e.file}:{getattr(e.node, 'lineno', '?')}", f"correct right-hand side rejected with {e.exc_name}")
        for label, bad in (("other-resolution", Tens((1,) + (N + 1,) * D, [Poly.atom(("u", "u", 0, "P"))])), ("extra-axis", Tens((1,) + (N,) * (D + 1), [Poly.atom(("u", "u", 0, "P"))]))):
            expect_value_error(ck, "call-guard", kb + f"#{label}", loc(Po.find("__call__")), lambda: it.call(po, [bad]), f"right-hand side of shape {tuple(str(d) for d in bad.shape)}")
    it.ctx.scan_term_mode = False
    # ---- operator shape check at construction
    it2 = new_interp(ck.repo, parity=0, stub_etdrk=True)
    Diff2 = it2.module("exponax.stepper").env.get("Diffusion")
    q = f"{Diff2.module.name}.Diffusion._build_linear_operator"
    for label, shape in (("two-operator-channels-for-one-state-channel", (2, N, H_of(0))), ("wrong-spatial-shape", (1, N, N)), ("missing-channel-axis", (N, H_of(0)))):
        it2.ctx.stubs[q] = lambda itp, args, kwargs, shape=shape: Tens(shape, [Poly.sym("lam")] * (2 if shape[0] == 2 else 1))
        expect_value_error(ck, "operator-shape", f"exponax._base_stepper.BaseStepper.__init__#{label}", loc(catalog.base_stepper(it2).find("__init__")), lambda: it2.call(Diff2, [2, L, N, DT]), f"linear operator of shape {tuple(str(d) for d in shape)}")
    del it2.ctx.stubs[q]
    # ---- restriction table
    it3 = new_interp(ck.repo, parity=0, stub_etdrk=True)
    st = dict((c.name, c) for _, c in catalog.exported_steppers(it3))
    nf = it3.module("exponax.nonlin_fun").env
    sp = it3.module("exponax._spectral").env
    ut = it3.module("exponax._utils").env
    ic = it3.module("exponax.ic").env
    me = it3.module("exponax.metrics").env
    rows = []

    def dim_rows(name, allowed):
        if name not in st:
            raise AnalysisBroken(f"stepper {name} vanished")
        for D in (1, 2, 3):
            if D not in allowed:
                rows.append((f"{name}#D={D}", loc(st[name].find("__init__")), lambda D=D, name=name: catalog.build(it3, st[name], D), f"{name} in {D}D"))

    for nm in ("NavierStokesVorticity", "KolmogorovFlowVorticity", "GeneralVorticityConvectionStepper"):
        dim_rows(nm, (2,))
    for nm in ("NavierStokesVelocity", "KolmogorovFlowVelocity"):
        dim_rows(nm, (3,))

    def dop(D):
        return Tens((D,) + (N,) * (D - 1) + (H_of(0),), C.deriv(D, L))

    for D in (1, 3):
        rows.append((f"VorticityConvection2d#D={D}", loc(nf.get("VorticityConvection2d").find("__init__")), lambda D=D: it3.call(nf.get("VorticityConvection2d"), [D, N], {"derivative_operator": dop(D), "dealiasing_fraction": S("f")}), f"VorticityConvection2d in {D}D"))
    for D in (1, 2):
        rows.append((f"ProjectedConvection3d#D={D}", loc(nf.get("ProjectedConvection3d").find("__init__")), lambda D=D: it3.call(nf.get("ProjectedConvection3d"), [D, N], {"derivative_operator": dop(D), "dealiasing_fraction": S("f")}), f"ProjectedConvection3d in {D}D"))
    conv = nf.get("ConvectionNonlinearFun")
    for cons in (False, True):
        rows.append((f"ConvectionNonlinearFun#C!=D,conservative={cons}", loc(conv.find("__call__")), lambda cons=cons: it3.call(it3.call(conv, [2, N], {"derivative_operator": dop(2), "conservative": cons}), [state_hat(2, 3, 0)]), "multi-channel convection with C != D"))
    GS = it3.module("exponax.stepper.reaction._gray_scott").env.get("GrayScottNonlinearFun")
    rows.append(("GrayScottNonlinearFun#C!=2", loc(GS.find("__call__")), lambda: it3.call(it3.call(GS, [1, N], {"dealiasing_fraction": S("f"), "feed_rate": S("a"), "kill_rate": S("b")}), [state_hat(1, 3, 0)]), "Gray-Scott term with 3 channels"))
    BZ = it3.module("exponax.stepper.reaction._belousov_zhabotinsky").env.get("BelousovZhabotinskyNonlinearFun")
    rows.append(("BelousovZhabotinskyNonlinearFun#C!=3", loc(BZ.find("__call__")), lambda: it3.call(it3.call(BZ, [1, N], {"dealiasing_fraction": S("f")}), [state_hat(1, 2, 0)]), "BZ term with 2 channels"))
    rows.append(("build_laplace_operator#odd-order", loc(sp.get("build_laplace_operator")), lambda: it3.call(sp.get("build_laplace_operator"), [dop(2)], {"order": 3}), "odd Laplace order"))
    rows.append(("build_gradient_inner_product_operator#even-order", loc(sp.get("build_gradient_inner_product_operator")), lambda: it3.call(sp.get("build_gradient_inner_product_operator"), [dop(2), Tens((2,), [S("v0"), S("v1")])], {"order": 2}), "even gradient order"))
    rows.append(("build_gradient_inner_product_operator#velocity-length", loc(sp.get("build_gradient_inner_product_operator")), lambda: it3.call(sp.get("build_gradient_inner_product_operator"), [dop(2), Tens((3,), [S("v0"), S("v1"), S("v2")])], {"order": 1}), "velocity of wrong length"))
    rows.append(("build_scaling_array#unknown-mode", loc(sp.get("build_scaling_array")), lambda: it3.call(sp.get("build_scaling_array"), [2, N], {"mode": "nope"}), "unknown scaling mode"))
    rows.append(("ifft#1d-without-num_points", loc(sp.get("ifft")), lambda: it3.call(sp.get("ifft"), [state_hat(1, 1, 0)], {"num_spatial_dims": 1}), "1-D inverse transform without num_points"))
    rows.append(("make_incompressible#C!=D", loc(sp.get("make_incompressible")), lambda: it3.call(sp.get("make_incompressible"), [state_phys(2, 3)]), "velocity field with C != D"))
    bnf = it3.module("exponax.nonlin_fun._base").env.get("BaseNonlinearFun")
    zero = it3.call(nf.get("ZeroNonlinearFun"), [1, N])
    rows.append(("BaseNonlinearFun.dealias#no-mask", loc(bnf.find("dealias")), lambda: it3.call(it3.getattr(zero, "dealias"), [state_hat(1, 1, 0)]), "dealias without mask"))
    for cls_name, mod in (("GeneralNonlinearFun", nf),):
        rows.append((f"{cls_name}#len(scale_list)!=3", loc(nf.get(cls_name).find("__init__")), lambda: it3.call(nf.get(cls_name), [1, N], {"derivative_operator": dop(1), "dealiasing_fraction": S("f"), "scale_list": (S("a"), S("b"))}), "scale list of length 2"))
    rows.append(("GeneralNonlinearStepper#len(nonlinear_coefficients)!=3", loc(st["GeneralNonlinearStepper"].find("__init__")), lambda: catalog.build(it3, st["GeneralNonlinearStepper"], 1, nonlinear_coefficients=(S("a"), S("b"))), "nonlinear coefficient list of length 2"))
    it3b = new_interp(ck.repo, parity=0)
    T_, sub = S("T"), S("sub")
    it3b.ctx.facts.append((sub - T_, ">0"))
    trj = Tens((T_, 1, N), [Poly.atom(("u", "trj", 0, "P"))])
    rows.append(("stack_sub_trajectories#sub_len>T", loc(ut.get("stack_sub_trajectories")), lambda: it3b.call(it3b.module("exponax._utils").env.get("stack_sub_trajectories"), [trj, sub]), "window longer than the trajectory"))
    trj2 = Tens((S("T2"), 1, N), [Poly.atom(("u", "trj2", 0, "P"))])
    rows.append(("stack_sub_trajectories#ragged", loc(ut.get("stack_sub_trajectories")), lambda: it3b.call(it3b.module("exponax._utils").env.get("stack_sub_trajectories"), [(trj, trj2), 1]), "pytree leaves with different time lengths"))
    u2 = state_phys(1, 1)
    for fn_, mode in (("spatial_norm", "normalized"), ("spatial_norm", "symmetric"), ("fourier_norm", "normalized")):
        rows.append((f"metrics.{fn_}#{mode}-without-reference", loc(me.get(fn_)), lambda fn_=fn_, mode=mode: it3.call(me.get(fn_), [u2], {"mode": mode}), f"{mode} norm without reference"))
    rows.append(("RandomSineWaves1d#D=2", loc(ic.get("RandomSineWaves1d").find("__init__")), lambda: it3.call(ic.get("RandomSineWaves1d"), [2]), "RandomSineWaves1d in 2D"))
    sw = it3.call(ic.get("SineWaves1d"), [L, (S("a"),), (1,), (S("p"),)])
    g2 = it3.call(ut.get("make_grid"), [2, L, N])
    rows.append(("SineWaves1d.__call__#2d-grid", loc(ic.get("SineWaves1d").find("__call__")), lambda: it3.call(sw, [g2]), "SineWaves1d evaluated on a 2D grid"))
    rows.append(("SineWaves1d#length-mismatch", loc(ic.get("SineWaves1d").find("__init__")), lambda: it3.call(ic.get("SineWaves1d"), [L, (S("a"), S("b")), (1,), (S("p"),)]), "amplitudes / wavenumbers / phases of different lengths"))
    Blob = it3.module("exponax.ic._gaussian_blob").env.get("GaussianBlob")
    blob = it3.call(Blob, [Tens((1,), [S("p")]), Tens((1, 1), [S("s")])])
    rows.append(("GaussianBlob.__call__#dimension-mismatch", loc(Blob.find("__call__")), lambda: it3.call(blob, [g2]), "1-D blob evaluated on a 2-D grid"))
    for zm, so, mo in ((False, True, False), (True, True, True)):
        for nm in ("GaussianRandomField", "DiffusedNoise", "RandomDiscontinuities"):
            rows.append((f"ic.{nm}#zero_mean={zm},std_one={so},max_one={mo}", loc(ic.get(nm).find("__init__")), lambda nm=nm, zm=zm, so=so, mo=mo: it3.call(ic.get(nm), [1], {"zero_mean": zm, "std_one": so, "max_one": mo}), "invalid normalisation options"))
    n_rows = 0
    for key, at, thunk, what in rows:
        expect_value_error(ck, "restriction", key, at, thunk, what)
        n_rows += 1
    ck.floor("restriction rows", n_rows, 40)
    # information: raise-sites in the package
    n_raise = 0
    for mod in ck.repo.modules.values():
        if ".viz" in mod.name:
            continue
        for n in ast.walk(mod.tree):
            if isinstance(n, ast.Raise) and n.exc is not None and "ValueError" in ast.unparse(n.exc):
                n_raise += 1
    ck.extra["raise_ValueError_sites_outside_viz"] = n_raise
    ck.floor("raise ValueError sites", n_raise, 40)
    ck.assumptions += ["restriction table transcribed from the docstrings (DESIGN 3 C20)"]
    return ck.finish(
        explanation="Guard structure decided by abstract interpretation with symbolic sizes: for every exported stepper and every supported dimension the resolved __call__ is invoked with the correct shape (must be accepted and keep its shape) and with a wrong channel count, an extra batch axis, a missing axis, another resolution and unequal axis lengths (each must reach a `raise ValueError` before any array code); same for RepeatedStepper and Poisson; BaseStepper's operator-shape check; and a table of 50+ documented dimension / parity / option restrictions, each of which must raise ValueError.",
        rule_text="instances = (stepper, D, malformed-shape kind) and restriction-table rows",
        trusted=["CPython ast", "static shape semantics of jax arrays"],
    )
