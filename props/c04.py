"""C04 - grid, FFT and Fourier-coefficient conventions are mutually consistent (DESIGN 3, C04)."""

from __future__ import annotations

import ast
import itertools
from fractions import Fraction as Fr

from vf import alg, catalog
from vf import symops as SO
from vf.alg import Poly, as_poly
from vf.harness import Check, new_interp, N, L, H_of, loc, AnalysisBroken, state_hat, state_phys
from vf.interp import Obj, RepoRaise, Term, AnalysisError
from vf.tens import Tens, ShapeError
from specs import common as C

PROP = "C04"
LEVEL = "other"
S = Poly.sym

# documented per-axis scaling table (build_scaling_array docstring + tests/test_spectral_scaling_arrays):
# value of the 1-D factor at (mean mode, interior mode, Nyquist mode) for the halved last axis and the other axes
TABLE = {
    "norm_compensation": {"last": (1, 1, 1), "other": (1, 1, 1)},
    "reconstruction": {"last": (1, Fr(1, 2), 1), "other": (1, 1, 1)},
    "coef_extraction": {"last": (1, Fr(1, 2), 1), "other": (1, Fr(1, 2), 1)},
}
CLS = ("zero", "int", "nyq")


def kind_layout(t, D):
    """for a (D, ...) wavenumber-like array: list of (axis the entry varies along, kind) per component"""
    out = []
    for e in t.data:
        ks = [a for a in e.all_atoms() if a[0] == "k"]
        out.append(sorted({(a[1], a[3]) for a in ks}))
    return out


def run(tier="quick", only_key=None):
    ck = Check(PROP, LEVEL, tier, only_key)
    ck.rule("transform-pair", "fft = rfftn over the D trailing axes, ifft = irfftn over the same axes with s=(N,)*D, default norm on both; 1-D ifft without num_points raises")
    ck.rule("fft-ownership", "no module other than _spectral.py calls jnp.fft transforms directly")
    ck.rule("layout", "wavenumbers / shapes / scalings / masks agree on: leading spatial axes full (fftfreq), last axis halved (rfftfreq)")
    ck.rule("scaling-table", "the three scaling modes have the documented per-mode values (mean / interior / Nyquist; last axis vs others); unknown mode raises")
    ck.rule("masks", "low-pass mask = { |k_a| <= cutoff } per axis (or |k|_2 <= cutoff); oddball mask removes exactly |k_a| = N/2 on even grids and nothing on odd grids")
    ck.rule("mode-slices", "get_modes_slices: 2^(D-1) blocks, leading full slice, last axis [:N//2+1], other axes [:ceil(N/2)] and [-(N//2):]")
    ck.rule("grid", "make_grid: x_j = i_j * L / N on axis j (left-inclusive, right-exclusive), full / zero_centered variants; wrap_bc pads every spatial axis by one on the right in wrap mode")
    ck.rule("indexing", "for indexing in {ij, xy}: coordinate j and wavenumber j vary along the same array axis, the halved axis is the last one, and the arrays multiply an rfftn spectrum")
    ck.rule("coefficient-readoff", "get_fourier_coefficients = round(fft(u) / scaling(mode))")
    # ---- who may call jnp.fft
    n_calls = 0
    for rel, src in ck.repo.files.items():
        if "/viz/" in rel:
            continue
        tree = ast.parse(src)
        for n in ast.walk(tree):
            if isinstance(n, ast.Call):
                fn = ast.unparse(n.func)
                if ".fft." in fn and fn.split(".")[-1] in ("rfftn", "irfftn", "fftn", "ifftn", "fft", "ifft", "rfft", "irfft", "fft2", "ifft2", "rfft2", "irfft2"):
                    n_calls += 1
                    key = f"{rel}#fft-call#{fn}"
                    if rel.endswith("exponax/_spectral.py") and fn.split(".")[-1] in ("rfftn", "irfftn"):
                        ck.ok("fft-ownership", key)
                    else:
                        ck.fail("fft-ownership", key, f"{rel}:{n.lineno}", f"direct call of {fn} outside the transform pair of _spectral.py")
    ck.floor("transform call sites", n_calls, 2)
    for parity in (0, 1):
        it = new_interp(ck.repo, parity=parity)
        sp = it.module("exponax._spectral").env
        ut = it.module("exponax._utils").env
        Hs = H_of(parity)

        def fn(name, env=sp):
            try:
                return env.get(name)
            except KeyError:
                raise AnalysisBroken(f"anchor {name} vanished")

        for D in (1, 2, 3):
            fshape = (N,) * (D - 1) + (Hs,)
            tag = f"D={D},Nparity={parity}"
            # ---- (a) transform pair
            u = state_phys(D, 2)
            it.ctx.events.clear()
            uh = it.call(fn("fft"), [u], {"num_spatial_dims": D})
            uh2 = it.call(fn("fft"), [u])
            back = it.call(fn("ifft"), [uh], {"num_spatial_dims": D, "num_points": N})
            ref_h = Tens((2,) + fshape, [C.fft(x, D) for x in u.data])
            ck.compare("transform-pair", f"exponax._spectral.fft#{tag}", loc(fn("fft")), uh, ref_h)
            ck.compare("transform-pair", f"exponax._spectral.fft#infer-D,{tag}", loc(fn("fft")), uh2, ref_h)
            ck.compare("transform-pair", f"exponax._spectral.ifft#{tag}", loc(fn("ifft")), back, Tens(u.shape, [C.ifft(x, D) for x in ref_h.data]))
            evs = [e for e in it.ctx.events if e["kind"] in ("nonstandard-fft", "irfftn-without-s")]
            if evs:
                ck.fail("transform-pair", f"exponax._spectral.fft/ifft#options,{tag}", f"{evs[0]['file']}:{evs[0]['line']}", f"transform called with non-default options: {evs[0]['detail']}")
            else:
                ck.ok("transform-pair", f"exponax._spectral.fft/ifft#options,{tag}")
            if D == 1:
                try:
                    it.call(fn("ifft"), [uh], {"num_spatial_dims": 1})
                    ck.fail("transform-pair", f"exponax._spectral.ifft#1d-needs-num_points,{tag}", loc(fn("ifft")), "1-D ifft without num_points is accepted")
                except RepoRaise as e:
                    (ck.ok if e.exc_name == "ValueError" else (lambda *a: ck.fail(*a, loc(fn("ifft")), f"raises {e.exc_name}")))("transform-pair", f"exponax._spectral.ifft#1d-needs-num_points,{tag}")
            else:
                try:
                    back2 = it.call(fn("ifft"), [uh])
                except ShapeError as e:
                    ck.fail("transform-pair", f"exponax._spectral.ifft#infer,{tag}", loc(fn("ifft")), f"ifft with inferred num_spatial_dims/num_points does not undo fft: {e}")
                else:
                    if back2.shape != back.shape:
                        ck.fail("transform-pair", f"exponax._spectral.ifft#infer,{tag}", loc(fn("ifft")), f"ifft with inferred num_points returns shape {tuple(str(d) for d in back2.shape)} instead of {tuple(str(d) for d in back.shape)}")
                    else:
                        ck.compare("transform-pair", f"exponax._spectral.ifft#infer,{tag}", loc(fn("ifft")), back2, back)
            # ---- (b) layout
            wn = it.call(fn("build_wavenumbers"), [D, N])
            ck.compare("layout", f"exponax._spectral.build_wavenumbers#{tag}", loc(fn("build_wavenumbers")), wn, Tens((D,) + fshape, C.kvec(D)))
            ws = it.call(fn("wavenumber_shape"), [D, N])
            ck.compare("layout", f"exponax._spectral.wavenumber_shape#{tag}", loc(fn("wavenumber_shape")), tuple(as_poly(x) for x in ws), tuple(as_poly(x) for x in fshape))
            ss = it.call(fn("spatial_shape"), [D, N])
            ck.compare("layout", f"exponax._spectral.spatial_shape#{tag}", loc(fn("spatial_shape")), tuple(as_poly(x) for x in ss), (N,) * D)
            si = it.call(fn("space_indices"), [D])
            ck.compare("layout", f"exponax._spectral.space_indices#{tag}", loc(fn("space_indices")), tuple(si), tuple(range(-D, 0)))
            swn = it.call(fn("build_scaled_wavenumbers"), [D, L, N])
            ck.compare("layout", f"exponax._spectral.build_scaled_wavenumbers#{tag}", loc(fn("build_scaled_wavenumbers")), swn, Tens((D,) + fshape, [2 * alg.PI / L * k for k in C.kvec(D)]))
            # ---- (c) scaling tables
            for mode in TABLE:
                sc = it.call(fn("build_scaling_array"), [D, N], {"mode": mode})
                key = f"exponax._spectral.build_scaling_array#{mode},{tag}"
                if sc.shape != (1,) + fshape:
                    ck.fail("scaling-table", key + "#shape", loc(fn("_build_scaling_array")), f"scaling array has shape {sc.shape}, spectrum has (C,)+{fshape}")
                    continue
                classes = CLS if parity == 0 else CLS[:2]
                for combo in itertools.product(classes, repeat=D):
                    world = {a: c for a, c in enumerate(combo)}
                    world["N"] = N
                    val = SO.specialize(sc.data[0], world)
                    ref = Poly.const(1)
                    for a, c in enumerate(combo):
                        role = "last" if a == D - 1 else "other"
                        ref = ref * N * TABLE[mode][role][CLS.index(c)]
                    ck.compare("scaling-table", key + f"#{combo}", loc(fn("_build_scaling_array")), val, ref, what=f"scaling value for mode class {combo} differs from the documented table")
            try:
                it.call(fn("build_scaling_array"), [D, N], {"mode": "bogus"})
                ck.fail("scaling-table", f"exponax._spectral.build_scaling_array#unknown-mode,{tag}", loc(fn("build_scaling_array")), "unknown mode accepted")
            except RepoRaise as e:
                if e.exc_name == "ValueError":
                    ck.ok("scaling-table", f"exponax._spectral.build_scaling_array#unknown-mode,{tag}")
                else:
                    ck.fail("scaling-table", f"exponax._spectral.build_scaling_array#unknown-mode,{tag}", loc(fn("build_scaling_array")), f"raises {e.exc_name}")
            # ---- masks
            cut = S("cut")
            m1 = it.call(fn("low_pass_filter_mask"), [D, N], {"cutoff": cut})
            ck.compare("masks", f"exponax._spectral.low_pass_filter_mask#axis,{tag}", loc(fn("low_pass_filter_mask")), m1, Tens((1,) + fshape, [C.lowpass(D, cut)]))
            m2 = it.call(fn("low_pass_filter_mask"), [D, N], {"cutoff": cut, "axis_separate": False})
            ref2 = alg.ind("le", alg.sqrt(sum((k * k for k in C.kvec(D)), Poly())), cut)
            ck.compare("masks", f"exponax._spectral.low_pass_filter_mask#sphere,{tag}", loc(fn("low_pass_filter_mask")), m2, Tens((1,) + fshape, [ref2]))
            ob = it.call(fn("oddball_filter_mask"), [D, N])
            if parity == 1:
                ck.compare("masks", f"exponax._spectral.oddball_filter_mask#{tag}", loc(fn("oddball_filter_mask")), ob, Tens((1,) + fshape, [Poly.const(1)]))
            else:
                ck.compare("masks", f"exponax._spectral.oddball_filter_mask#{tag}", loc(fn("oddball_filter_mask")), ob, Tens((1,) + fshape, [C.lowpass(D, N / 2 - 1)]), what="oddball mask is not { |k_a| <= N/2 - 1 }")
            # ---- mode slices
            sl = it.call(fn("get_modes_slices"), [D, N])
            m = (N - parity) / 2
            left = slice(None, m + parity)
            right = slice(-m, None)
            last = slice(None, m + 1)
            ref_blocks = []
            for combo in itertools.product([left, right], repeat=D - 1):
                ref_blocks.append((slice(None),) + tuple(combo) + (last,))
            got = tuple(tuple(b) for b in sl)
            ok = len(got) == len(ref_blocks) and {_fs(b) for b in got} == {_fs(b) for b in ref_blocks}
            if ok:
                ck.ok("mode-slices", f"exponax._spectral.get_modes_slices#{tag}", form=[_fs(b) for b in got])
            else:
                ck.fail("mode-slices", f"exponax._spectral.get_modes_slices#{tag}", loc(fn("get_modes_slices")), "mode blocks differ from the documented ones", code=str([_fs(b) for b in got]), ref=str([_fs(b) for b in ref_blocks]))
            # ---- grid
            for full, zc in itertools.product((False, True), repeat=2):
                g = it.call(fn("make_grid", ut), [D, L, N], {"full": full, "zero_centered": zc})
                npts = N + 1 if full else N
                ref = Tens((D,) + (npts,) * D, [Poly.atom(("idx", ("grid", j, D))) * L / N - (L / 2 if zc else 0) for j in range(D)])
                ck.compare("grid", f"exponax._utils.make_grid#full={full},zero_centered={zc},{tag}", loc(fn("make_grid", ut)), g, ref)
            # the number of spatial axes is read from u.shape: give a concrete rank
            uw = state_phys(D, 1)
            w = it.call(fn("wrap_bc", ut), [uw])
            if _wrap_pad_widths(w, uw) == ((0, 0),) + ((0, 1),) * D:
                ck.ok("grid", f"exponax._utils.wrap_bc#{tag}")
            else:
                ck.fail("grid", f"exponax._utils.wrap_bc#{tag}", loc(fn("wrap_bc", ut)), f"wrap_bc is not pad(u, ((0,0),(0,1)*D), mode='wrap'): {w}")
            # ---- the spacing attribute the steppers and the Poisson solver publish
            Diff = it.module("exponax.stepper").env.get("Diffusion")
            Po = it.module("exponax._poisson").env.get("Poisson")
            for nm, ob in (("exponax._base_stepper.BaseStepper.dx", catalog.build(it, Diff, D)), ("exponax._poisson.Poisson.dx", it.call(Po, [D, L, N]))):
                dx = ob.f.get("dx")
                if dx is None:
                    continue
                if as_poly(dx) == L / N:
                    ck.ok("grid", f"{nm}#{tag}")
                else:
                    ck.fail("grid", f"{nm}#{tag}", loc(ob.cls.find("__init__")), f"published grid spacing dx = {dx} instead of L/N")
            # ---- coefficient read-off
            for mode in list(TABLE) + [None]:
                uu = state_phys(D, 1)
                res = it.call(fn("get_fourier_coefficients"), [uu], {"scaling_compensation_mode": mode, "round": None})
                sc = it.call(fn("build_scaling_array"), [D, N], {"mode": mode}).data[0] if mode else Poly.const(1)
                ref = Tens((1,) + fshape, [C.fft(uu.data[0], D) / sc])
                ck.compare("coefficient-readoff", f"exponax._spectral.get_fourier_coefficients#{mode},{tag}", loc(fn("get_fourier_coefficients")), res, ref)
            # ---- (e) indexing
            for indexing in ("ij", "xy"):
                _indexing(ck, it, fn, ut, D, parity, indexing, fshape)
    ck.assumptions += ["numeric round trip / amplitude read-off of jnp.fft.rfftn are library behaviour (numpy layout trusted): not decided", "scaling table transcribed from the build_scaling_array docstring"]
    return ck.finish(
        explanation="All layout-bearing functions of _spectral.py and _utils.py are interpreted with symbolic axes that remember which array axis each 1-D factor varies along and whether it is the halved one. The transform pair must use the same trailing axes, default norm and s=(N,)*D; wavenumbers, shapes, scalings, masks and mode slices must agree on 'leading axes full, last axis halved' for D in {1,2,3} and N even/odd; scaling arrays are evaluated in every (mean, interior, Nyquist)^D mode class and compared with the documented table; grid formula, wrap padding, coefficient read-off; both meshgrid indexings must keep coordinates, wavenumbers and spectra aligned; only _spectral.py may call jnp.fft.",
        rule_text="rule instances = (function, D, parity[, mode class / option]); distinct = distinct canonical forms",
        trusted=["CPython ast", "numpy semantics of meshgrid / fftfreq / rfftfreq / slicing transcribed in vf/jnpops.py"],
    )


def _fs(block):
    return tuple((str(s.start), str(s.stop), str(s.step)) if isinstance(s, slice) else str(s) for s in block)


def _wrap_pad_widths(w, operand):
    """total pad widths of a (possibly nested) wrap-mode pad of `operand`; nested pads compose when they touch disjoint
    axes (wrapping axis a and then axis b is the same as wrapping both at once); None if it is anything else"""
    total = None
    while isinstance(w, Term) and w.op == "pad":
        if len(w.args) < 3 or w.args[2] != "wrap":
            return None
        widths = w.args[1]
        if isinstance(widths, tuple) and widths and widths[0] in ("list", "tuple"):
            widths = widths[1:]
        try:
            widths = tuple((int(a), int(b)) for a, b in widths)
        except Exception:
            return None
        if total is None:
            total = widths
        else:
            if len(total) != len(widths) or any(x != (0, 0) and y != (0, 0) for x, y in zip(total, widths)):
                return None
            total = tuple((x[0] + y[0], x[1] + y[1]) for x, y in zip(total, widths))
        w = w.args[0]
    if total is None or w is not operand and not (isinstance(w, Tens) and isinstance(operand, Tens) and w.shape == operand.shape and w.data == operand.data):
        return None
    return total


def _indexing(ck, it, fn, ut, D, parity, indexing, fshape):
    tag = f"D={D},Nparity={parity},indexing={indexing}"
    rule = "indexing"
    targets = [
        ("build_wavenumbers", fn("build_wavenumbers"), [D, N], {}),
        ("build_scaled_wavenumbers", fn("build_scaled_wavenumbers"), [D, L, N], {}),
        ("build_derivative_operator", fn("build_derivative_operator"), [D, L, N], {}),
        ("low_pass_filter_mask", fn("low_pass_filter_mask"), [D, N], {"cutoff": S("cut")}),
        ("build_scaling_array", fn("build_scaling_array"), [D, N], {"mode": "reconstruction"}),
    ]
    spectrum = state_hat(D, 1, parity)
    for name, f, args, kw in targets:
        key = f"exponax._spectral.{name}#{tag}"
        try:
            r = it.call(f, args, dict(kw, indexing=indexing))
        except RepoRaise as e:
            ck.fail(rule, key, f"{e.file}:{getattr(e.node, 'lineno', '?')}", f"raises {e.exc_name}")
            continue
        problems = []
        if r.shape[1:] != fshape:
            problems.append(f"spatial shape {tuple(str(d) for d in r.shape[1:])} cannot multiply an rfftn spectrum of shape {tuple(str(d) for d in fshape)}: the halved axis is not the last one")
        for e in r.data:
            for a in e.all_atoms():
                if a[0] == "k" and a[3] == "half" and a[1] != D - 1:
                    problems.append(f"halved wavenumbers vary along array axis {a[1]} instead of the last axis")
                    break
        if problems:
            ck.fail(rule, key, loc(f), "; ".join(sorted(set(problems))))
        else:
            ck.ok(rule, key)
    # coordinate j and wavenumber j on the same array axis
    g = it.call(fn("make_grid", ut), [D, L, N], {"indexing": indexing})
    wn = it.call(fn("build_wavenumbers"), [D, N], {"indexing": indexing})
    gaxes = [sorted({a[1][1] for a in e.all_atoms() if a[0] == "idx"}) for e in g.data]
    kaxes = [sorted({a[1] for a in e.all_atoms() if a[0] == "k"}) for e in wn.data]
    key = f"exponax._utils.make_grid~build_wavenumbers#{tag}"
    if gaxes == kaxes:
        ck.ok(rule, key, form=(indexing, D, gaxes))
    else:
        ck.fail(rule, key, loc(fn("make_grid", ut)), f"grid components vary along axes {gaxes} but wavenumber components along {kaxes}")
    # public consumers of the option
    consumers = [
        ("derivative", lambda: it.call(fn("derivative"), [state_phys(D, 1), L], {"indexing": indexing})),
        ("get_fourier_coefficients", lambda: it.call(fn("get_fourier_coefficients"), [state_phys(D, 1)], {"indexing": indexing, "round": None})),
    ]
    if D > 1:
        consumers.append(("make_incompressible", lambda: it.call(fn("make_incompressible"), [state_phys(D, D)], {"indexing": indexing})))
    FI = it.module("exponax._interpolation").env.get("FourierInterpolator")
    consumers.append(("FourierInterpolator", lambda: it.call(FI, [state_phys(D, 1)], {"domain_extent": L, "indexing": indexing})))
    sigma = {j: (ax[0] if len(ax) == 1 else j) for j, ax in enumerate(gaxes)}

    def canon(e, ren):
        def f(a):
            if a[0] == "k":
                return Poly.atom(("k", ren[a[1]] if ren else a[1], a[2], "full"))
            return None

        return SO.specialize(alg.map_atoms(as_poly(e), f), "generic")

    for name, thunk in consumers:
        key = f"{name}#{tag}"
        try:
            r = thunk()
            ck.ok(rule, key)
            # the option must reach the wavenumbers the consumer multiplies with: component j of the result belongs
            # to coordinate j, which make_grid(indexing) lays out along array axis sigma(j)
            if indexing != "ij" and name in ("derivative", "make_incompressible", "get_fourier_coefficients") and not isinstance(r, Obj):
                it_ij = {"derivative": lambda: it.call(fn("derivative"), [state_phys(D, 1), L], {"indexing": "ij"}),
                         "get_fourier_coefficients": lambda: it.call(fn("get_fourier_coefficients"), [state_phys(D, 1)], {"indexing": "ij", "round": None}),
                         "make_incompressible": lambda: it.call(fn("make_incompressible"), [state_phys(D, D)], {"indexing": "ij"})}[name]()
                ren = None if name == "get_fourier_coefficients" else sigma
                got = [canon(e, None) for e in r.data]
                want = [canon(e, ren) for e in it_ij.data]
                ck.compare(rule, key + "#value", loc(fn(name)), got, want, config={"D": D, "parity": parity, "indexing": indexing, "sigma": str(sigma)})
        except ShapeError as e:
            where = getattr(e, "_loc", None)
            ck.fail(rule, key, f"{where[0]}:{where[1]}" if where else "?", f"{name}(indexing='{indexing}') multiplies arrays of incompatible shapes: {e}")
        except RepoRaise as e:
            ck.fail(rule, key, f"{e.file}:{getattr(e.node, 'lineno', '?')}", f"raises {e.exc_name}")
