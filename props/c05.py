"""C05 - spectral differential operators are exact on band-limited fields (DESIGN 3, C05)."""

from __future__ import annotations

from vf import alg, catalog
from vf import symops as SO
from vf.alg import Poly, as_poly
from vf.harness import Check, new_interp, N, L, H_of, loc, AnalysisBroken, state_hat, state_phys
from vf.interp import Obj, RepoRaise
from vf.tens import Tens
from specs import common as C

PROP = "C05"
LEVEL = "translation_validation"
S = Poly.sym


def expect_raise(ck, it, rule, key, fn, args, kwargs, exc="ValueError"):
    try:
        it.call(fn, args, kwargs)
    except RepoRaise as e:
        if e.exc_name == exc:
            ck.ok(rule, key)
            return
        ck.fail(rule, key, f"{e.file}:{getattr(e.node, 'lineno', '?')}", f"raises {e.exc_name}, documented {exc}")
        return
    ck.fail(rule, key, loc(fn), f"documented-invalid input is accepted (no {exc})")


def run(tier="quick", only_key=None):
    ck = Check(PROP, LEVEL, tier, only_key)
    ck.rule("derivative", "derivative(u, L, order) = ifft((i 2 pi k_j / L)^order fft(u)) with the derivative axis after the channel axis (none added for C=1)")
    ck.rule("laplace", "build_laplace_operator(order) = sum_j D_j^order, identity for order 0")
    ck.rule("gradient-inner-product", "build_gradient_inner_product_operator = sum_j v_j D_j^order")
    ck.rule("parity-guard", "odd Laplace order, even gradient order and a velocity of the wrong length raise ValueError")
    ck.rule("poisson", "Poisson: operator * u = -f off the mean mode, u = 0 at the mean mode; step = ifft(step_fourier(fft f))")
    orders = range(1, 7)
    rows = 0
    for parity in (0, 1):
        it = new_interp(ck.repo, parity=parity)
        sp = it.module("exponax._spectral")
        try:
            f_der = sp.env.get("derivative")
            f_lap = sp.env.get("build_laplace_operator")
            f_gip = sp.env.get("build_gradient_inner_product_operator")
            Poisson = it.module("exponax._poisson").env.get("Poisson")
        except KeyError as e:
            raise AnalysisBroken(f"anchor vanished: {e}")
        for D in (1, 2, 3):
            Dv = C.deriv(D, L)
            fshape = (N,) * (D - 1) + (H_of(parity),)
            Dop = Tens((D,) + fshape, Dv)
            for Cn in (1, 2, 3):
                u = state_phys(D, Cn)
                for o in orders:
                    key = f"exponax._spectral.derivative#D={D},C={Cn},order={o},Nparity={parity}"
                    res = it.call(f_der, [u, L], {"order": o})
                    uh = [C.fft(x, D) for x in u.data]
                    if Cn == 1:
                        ref = Tens((D,) + (N,) * D, [C.ifft(Dv[j] ** o * uh[0], D) for j in range(D)])
                    else:
                        ref = Tens((Cn, D) + (N,) * D, [C.ifft(Dv[j] ** o * uh[c], D) for c in range(Cn) for j in range(D)])
                    ck.compare("derivative", key, loc(f_der), res, ref, config={"D": D, "C": Cn, "order": o})
                    rows += 1
            for o in (0, 2, 4, 6):
                key = f"exponax._spectral.build_laplace_operator#D={D},order={o},Nparity={parity}"
                res = it.call(f_lap, [Dop], {"order": o})
                ref = Tens((1,) + fshape, [sum((d**o for d in Dv), Poly()) if o else Poly.const(1)])
                ck.compare("laplace", key, loc(f_lap), res, ref)
                rows += 1
            for o in (1, 3, 5):
                expect_raise(ck, it, "parity-guard", f"exponax._spectral.build_laplace_operator#odd-order={o},D={D}", f_lap, [Dop], {"order": o})
            vel = Tens((D,), [S(f"v{j}") for j in range(D)])
            for o in (1, 3, 5):
                key = f"exponax._spectral.build_gradient_inner_product_operator#D={D},order={o},Nparity={parity}"
                res = it.call(f_gip, [Dop, vel], {"order": o})
                ref = Tens((1,) + fshape, [sum((vel.data[j] * Dv[j] ** o for j in range(D)), Poly())])
                ck.compare("gradient-inner-product", key, loc(f_gip), res, ref)
                rows += 1
            for o in (0, 2, 4):
                expect_raise(ck, it, "parity-guard", f"exponax._spectral.build_gradient_inner_product_operator#even-order={o},D={D}", f_gip, [Dop, vel], {"order": o})
            bad = Tens((D + 1,), [S(f"v{j}") for j in range(D + 1)])
            expect_raise(ck, it, "parity-guard", f"exponax._spectral.build_gradient_inner_product_operator#velocity-length,D={D}", f_gip, [Dop, bad], {"order": 1})
            # ---- Poisson
            for o in (2, 4):
                key = f"{Poisson.qual}#D={D},order={o},Nparity={parity}"
                ps = it.call(Poisson, [D, L, N], {"order": o})
                for Cn in (1, 2):
                    fh = state_hat(D, Cn, parity, "f")
                    res = it.call(it.getattr(ps, "step_fourier"), [fh])
                    op = sum((d**o for d in Dv), Poly())
                    gen = [SO.specialize(e, "generic") * op + fx for e, fx in zip(res.data, fh.data)]
                    ck.compare("poisson", key + f",C={Cn}#generic", loc(Poisson.find("step_fourier")), gen, [Poly()] * Cn, what="(sum_j D_j^order) * u_hat + f_hat does not vanish off the mean mode")
                    try:
                        dc = [SO.specialize(e, "dc") for e in res.data]
                    except alg.AlgError as ex:
                        ck.fail("poisson", key + f",C={Cn}#dc", loc(Poisson.find("__init__")), f"inverse operator is singular at the mean mode: {ex}")
                        dc = None
                    if dc is not None:
                        ck.compare("poisson", key + f",C={Cn}#dc", loc(Poisson.find("__init__")), dc, [Poly()] * Cn, what="solution is not zero-mean")
                    fp = state_phys(D, Cn, "f")
                    r2 = it.call(it.getattr(ps, "step"), [fp])
                    fhat = Tens(fh.shape, [C.fft(x, D) for x in fp.data])
                    sf = it.call(it.getattr(ps, "step_fourier"), [fhat])
                    ck.compare("poisson", key + f",C={Cn}#step", loc(Poisson.find("step")), r2, Tens(fp.shape, [SO.inverse_entry(e, D) for e in sf.data]))
                    rows += 1
    ck.floor("formula rows", rows, 150)
    ck.extra["config_rows"] = rows
    ck.assumptions += ["rounding not decided; odd orders on even grids are exact only on Nyquist-free fields (precondition of the property)"]
    return ck.finish(
        explanation="derivative, build_laplace_operator, build_gradient_inner_product_operator and Poisson are interpreted for D in {1,2,3}, N even/odd, orders 1..6 (0,2,4,6 / 1,3,5 / 2,4) and C in {1,2,3}; results are compared by normal form with the analytic symbols (i 2 pi k/L)^order; the Poisson solution must satisfy operator*u = -f off the mean mode and vanish at it; the three parity/length guards must raise ValueError.",
        rule_text="one program = (function, D, C, order, parity); distinct = distinct canonical forms",
        trusted=["CPython ast", "vf normal forms", "rfftn/irfftn inverse linear maps"],
    )
