"""C08 - steppers commute with the symmetries of the periodic box (DESIGN 3, C08)."""

from __future__ import annotations

import itertools
from fractions import Fraction as Fr

from vf import alg, catalog
from vf import symops as SO
from vf.alg import Poly, as_poly
from vf.harness import Check, new_interp, N, L, DT, H_of, loc, AnalysisBroken, state_hat
from vf.interp import Obj, RepoRaise
from vf.tens import Tens

PROP = "C08"
LEVEL = "translation_validation"
S = Poly.sym

FORCED = {"KolmogorovFlowVorticity", "KolmogorovFlowVelocity"}
FORCED_NONLIN = {"VorticityConvection2dKolmogorov", "ProjectedConvection3dKolmogorov"}
PSEUDO_SCALAR = {"NavierStokesVorticity", "GeneralVorticityConvectionStepper"}  # state = vorticity: sign flips under odd permutations

ALLOWED_TAGS = {"s", "num", "k", "ind", "P", "R", "abs", "exp", "expi", "u", "I", "Idc", "F", "Sum", "expc"}


def perm_sign(p):
    s = 1
    p = list(p)
    for i in range(len(p)):
        while p[i] != i:
            j = p[i]
            p[i], p[j] = p[j], p[i]
            s = -s
    return s


def rename(form, sigma, vector_state, D):
    def f(a):
        if a[0] == "k":
            return Poly.atom(("k", sigma[a[1]], a[2], a[3]))
        if a[0] == "u" and vector_state:
            return Poly.atom(("u", a[1], sigma[a[2]], a[3]))
        return None

    return alg.map_atoms(form, f)


def embed(form, D, axis, vector_state):
    """restrict a D-dimensional canonical form to states constant along all axes but `axis` and express
    it with the 1-D atoms"""
    N_ = N

    def f(a):
        if a[0] == "k":
            if a[1] != axis:
                return Poly()
            return Poly.atom(("k", 0, 1, a[3]))
        if a[0] == "u":
            if vector_state:
                if a[2] != axis:
                    return Poly()
                return Poly.atom(("u", a[1], 0, a[3]))
            return None
        return None

    q = alg.map_atoms(form, f)

    def g(a):
        # dimension bookkeeping of the transform / sum atoms: D -> 1
        if a[0] == "I" and a[3] == D:
            return Poly.atom(("I", a[1], a[2], 1))
        if a[0] == "Idc" and a[2] == D:
            return Poly.atom(("Idc", a[1], 1))
        if a[0] == "F" and a[2] == D:
            return Poly.atom(("F", a[1], 1))
        if a[0] == "Sum" and (len(a[2]) == D or (len(a[2]) == 1 and as_poly(a[2][0]) == as_poly(N_) ** D)) and D > 1:
            return (N_ ** (D - 1)) * Poly.atom(("Sum", a[1], (N_,)))
        return None

    # apply g bottom-up until stable (nested atoms)
    for _ in range(6):
        q2 = alg.map_atoms(q, g)
        if q2 == q:
            break
        q = q2
    return SO.assume_mean_mode_retained(q)


def scalar_coefficient_kwargs(cls):
    """symbolic isotropic coefficients only (per-axis vectors are not isotropic)"""
    return {}


def run(tier="quick", only_key=None):
    ck = Check(PROP, LEVEL, tier, only_key)
    ck.rule("building-blocks", "canonical symbols / nonlinear terms contain only wavenumber multipliers, masks, transforms of pointwise products and global sums: nothing position dependent")
    ck.rule("forcing-scope", "state-independent additive spectra occur only in the documented forced classes and are supported on modes with k_a = 0 for every axis a != 1 (invariant under shifts along all other axes)")
    ck.rule("permutation", "simultaneous relabelling of spatial axes (and velocity channels) leaves the canonical forms unchanged (pseudo-scalar vorticity: up to the permutation's sign)")
    ck.rule("embedding", "with all but one derivative symbol (and all but that velocity channel) zero, the D-dimensional forms reduce to the 1-D forms")
    rows = 0
    for parity in ((0,) if tier == "quick" else (0, 1)):
        it = new_interp(ck.repo, parity=parity, stub_etdrk=True)
        it.ctx.symmetric_layout = True
        allforms = {}
        steppers = catalog.exported_steppers(it)
        forms1 = {}
        for pub, cls in steppers:
            dims, _ = catalog.allowed_dims(it, cls)
            for D in dims:
                for fl in (list(catalog.flag_rows(cls)) or [{}]):
                    try:
                        f = catalog.stepper_forms(it, cls, D, parity, **fl)
                    except RepoRaise as e:
                        raise AnalysisBroken(f"{pub} D={D} {fl}: constructor raises {e.exc_name}")
                    allforms[(cls.name, D, tuple(sorted(fl.items())))] = f
                    Cn = f["C"]
                    vector_state = _is_vector_state(f, D)
                    Lf = list(f["L"].data)
                    Nf = list(f["N"].data) if f["N"] is not None else []
                    # where-guards (inverse Laplacian at the mean mode) are resolved in the generic world;
                    # the mean-mode world is trivially symmetric (all wavenumbers vanish)
                    try:
                        Lf = [SO.specialize(e, "generic") for e in Lf]
                        Nf = [SO.specialize(e, "generic") for e in Nf]
                    except alg.AlgError as ex:
                        raise AnalysisBroken(f"{pub}: {ex}")
                    key0 = f"{cls.qual}#D={D},Nparity={parity},{fl}"
                    at = loc(f["nf"].cls.find("__call__")) if f["nf"] is not None else loc(cls.find("__init__"))
                    rows += 1
                    # ---- (a) building blocks
                    bad = None
                    for e in Lf + Nf:
                        for a in e.all_atoms():
                            if a[0] not in ALLOWED_TAGS:
                                bad = f"position- or state-dependent building block {alg.fmt_atom(a)}"
                            if a[0] == "idx":
                                bad = f"grid position enters the term: {alg.fmt_atom(a)}"
                    for e in Lf:
                        if any(a[0] in ("u", "I", "F", "Idc") for a in e.all_atoms()):
                            bad = "linear symbol depends on the state"
                    if bad:
                        ck.fail("building-blocks", key0 + "#blocks", at, bad)
                    else:
                        ck.ok("building-blocks", key0 + "#blocks")
                    # state-independent additive terms
                    free = []
                    for c, e in enumerate(Nf):
                        for m, cf in e.t.items():
                            if not any(a[0] in ("u", "F", "I", "Idc") for a in Poly({m: cf}).all_atoms()):
                                free.append((c, Poly({m: cf})))
                    if free:
                        nfname = f["nf"].cls.name
                        if nfname not in FORCED_NONLIN:
                            ck.fail("forcing-scope", key0 + "#forcing", at, f"state-independent spectrum {free[0][1]} added by {nfname}: breaks translation invariance outside the documented forced classes")
                        else:
                            ok = True
                            for c, t in free:
                                for a_ax in range(D):
                                    if a_ax == 1:
                                        continue
                                    want = alg.ind("eq", Poly.atom(("k", a_ax, D, "full")), 0)
                                    if not all(any(x == next(iter(want.atoms())) for x, _ in m) for m in t.t):
                                        ok = False
                            if ok:
                                ck.ok("forcing-scope", key0 + "#forcing")
                            else:
                                ck.fail("forcing-scope", key0 + "#forcing", at, "forcing spectrum is not confined to k_a = 0 for the axes a != 1")
                    if D == 1:
                        forms1[(cls.name, tuple(sorted(fl.items())))] = (Lf, Nf)
                        continue
                    if cls.name in FORCED or (f["nf"] is not None and f["nf"].cls.name in FORCED_NONLIN):
                        continue
                    # ---- (b) permutations
                    for sigma in itertools.permutations(range(D)):
                        if sigma == tuple(range(D)):
                            continue
                        sg = perm_sign(sigma) if cls.name in PSEUDO_SCALAR else 1
                        okp = True
                        for e in Lf:
                            if rename(e, sigma, False, D) != e:
                                okp = False
                        for c, e in enumerate(Nf):
                            target = Nf[sigma[c]] if vector_state else e
                            r = rename(e, sigma, vector_state, D)
                            if cls.name in PSEUDO_SCALAR:
                                # N(sgn * sigma w) = sgn * sigma N(w): N is quadratic in w -> sgn^2 = 1 on the left, so demand r == sgn*target
                                if r != target.scale(sg):
                                    okp = False
                            elif r != target:
                                okp = False
                        keyp = key0 + f"#perm={sigma}"
                        if okp:
                            ck.ok("permutation", keyp)
                        else:
                            ck.fail("permutation", keyp, at, f"canonical form is not invariant under the axis permutation {sigma}")
        # ---- (c) embedding
        for pub, cls in steppers:
            if cls.name in FORCED:
                continue
            if cls.name.startswith("Difficulty"):
                # the difficulty parametrisation contains the dimension by definition (gamma_j = alpha_j N^j 2^(j-1) D):
                # the "corresponding" 1-D stepper has other difficulties; the underlying normalized family is checked
                continue
            dims, _ = catalog.allowed_dims(it, cls)
            if 1 not in dims:
                continue
            for D in dims:
                if D == 1:
                    continue
                for fl in (list(catalog.flag_rows(cls)) or [{}]):
                    f = allforms[(cls.name, D, tuple(sorted(fl.items())))]
                    Cn = f["C"]
                    vector_state = _is_vector_state(f, D)
                    L1, N1 = forms1[(cls.name, tuple(sorted(fl.items())))]
                    for axis in range(D):
                        key = f"{cls.qual}#embed#D={D},axis={axis},Nparity={parity},{fl}"
                        at = loc(f["nf"].cls.find("__call__")) if f["nf"] is not None else loc(cls.find("__init__"))
                        if f["nf"] is not None and f["nf"].cls.name in FORCED_NONLIN:
                            continue
                        try:
                            Le = [embed(SO.specialize(e, "generic"), D, axis, False) for e in f["L"].data]
                            Ne = [embed(SO.specialize(e, "generic"), D, axis, vector_state) for e in (f["N"].data if f["N"] is not None else [])]
                        except alg.AlgError as ex:
                            ck.fail("embedding", key, at, f"restriction to one axis is singular: {ex}")
                            continue
                        ok = True
                        L1e = [SO.assume_mean_mode_retained(x) for x in L1]
                        N1e = [SO.assume_mean_mode_retained(x) for x in N1]
                        # zeroth-order terms a_0 * (1 . grad^0) = a_0 * D are dimension dependent by their documented definition
                        if len(Le) == len(L1e):
                            if Le != L1e and not _zeroth_order_only(Le, L1e, D):
                                ok = False
                        else:
                            ok = False
                        if vector_state:
                            if Ne[axis] != N1e[0] or any(not Ne[c].is_zero() for c in range(D) if c != axis):
                                ok = False
                        else:
                            if Ne != N1e:
                                ok = False
                        if ok:
                            ck.ok("embedding", key)
                        else:
                            ck.fail("embedding", key, at, f"D={D} form restricted to axis {axis} differs from the 1-D form", code=str((Le, Ne))[:3000], ref=str((L1e, N1e))[:3000])
                        rows += 1
    ck.floor("rows", rows, 150)
    ck.assumptions += [
        "translation invariance follows from the closure rule: Fourier multipliers, masks, pointwise products and global means commute with grid shifts; numeric commutation error not decided",
        "formulas are compared in a symmetric-layout evaluation (signed wavenumbers on every axis); the halved last axis is C04's subject",
        "2-D vorticity is a pseudo-scalar: invariance is demanded up to the permutation's sign",
        "the dealiasing band contains the mean mode",
    ]
    return ck.finish(
        explanation="The canonical linear symbols and nonlinear terms of every exported stepper (all flag rows, D in {1,2,3}, N even/odd, isotropic symbolic coefficients) are computed once; (a) their atoms must all be shift-commuting building blocks, additive state-independent spectra only in the Kolmogorov classes and confined to k_a=0 off the forcing axis; (b) renaming axes and velocity channels by every permutation must leave the forms unchanged; (c) setting all but one wavenumber (and velocity channel) to zero must give the 1-D form.",
        rule_text="one program = (stepper, D, parity, flag row, permutation | embedding axis); distinct = distinct keys",
        trusted=["CPython ast", "vf normal forms"],
    )


def _is_vector_state(f, D):
    """the state is a velocity vector whose channels are tied to the spatial axes"""
    nf = f.get("nf")
    return D > 1 and f["C"] == D and nf is not None and nf.cls.name in ("ConvectionNonlinearFun", "ProjectedConvection3d", "ProjectedConvection3dKolmogorov")


def _zeroth_order_only(Le, L1e, D):
    """difference consists only of wavenumber-free terms scaled by D (a_0 * (1.1) = a_0 * D by definition)"""
    for a, b in zip(Le, L1e):
        d = a - b
        for m, c in d.t.items():
            if any(x[0] == "k" for x, _ in m):
                return False
        const_b = Poly({m: c for m, c in b.t.items() if not any(x[0] == "k" for x, _ in m)})
        const_a = Poly({m: c for m, c in a.t.items() if not any(x[0] == "k" for x, _ in m)})
        if const_a != const_b.scale(D) and const_a != const_b:
            return False
    return True
