"""C14 - rollout, repeat and the wrapper steppers equal the naive loop (DESIGN 3, C14)."""

from __future__ import annotations

import itertools
from fractions import Fraction as Fr

from vf import alg, catalog
from vf import symops as SO
from vf.alg import Poly, as_poly
from vf.harness import Check, new_interp, N, L, DT, H_of, loc, AnalysisBroken, state_phys, state_hat
from vf.interp import RepoRaise, KeyVal, Obj, Term, UFun, UndecidableBranch
from vf.tens import Tens
from vf.termeval import unroll, Stack
from specs import common as C

PROP = "C14"
LEVEL = "other"
S = Poly.sym
NSYM = S("n")


def naive(step, u0, n, aux=None, constant=True):
    """the python loop of the specification"""
    out = []
    u = u0
    for i in range(n):
        if aux is None:
            u = step(u)
        else:
            u = step(u, aux if constant else aux[i])
        out.append(u)
    return out


def S_call(*args):
    return Term("call", "S", list(args), {})


def run(tier="quick", only_key=None):
    ck = Check(PROP, LEVEL, tier, only_key)
    ck.rule("rollout", "rollout(S, n, ...)(u0[, aux]) unrolled for concrete n equals [S(u0), S(S(u0)), ...] (initial state prepended when requested, aux constant or consumed in order, pytree states leafwise)")
    ck.rule("repeat", "repeat(S, n, ...)(u0[, aux]) equals the n-fold application")
    ck.rule("scan-length", "the scans run for exactly n steps (length = n / xs of length n)")
    ck.rule("windows", "stack_sub_trajectories returns dynamic_slice windows [i, i+sub_len) on axis 0 for i = 0 .. T-sub_len in order; sub_len > T and ragged trees raise")
    ck.rule("repeated-stepper", "RepeatedStepper: dt = stepper.dt * n, metadata copied, step = ifft(repeat(stepper.step_fourier, n)(fft(u))), n sub-steps of the inner stepper")
    ck.rule("ic-set", "build_ic_set draws sample i with the key obtained by splitting the carried key i times (carry = first half, sample key = second half), num_samples samples")
    ck.rule("traced-key", "every exported generator can be called with a traced key (inside build_ic_set's scan): no Python branch / coercion on a drawn value")
    ns = (0, 1, 2, 3) if tier == "quick" else (0, 1, 2, 3, 4, 5)
    it = new_interp(ck.repo, parity=0, stub_etdrk="nonlinear")
    ut = it.module("exponax._utils").env
    try:
        rollout, repeat, sst, bis = ut.get("rollout"), ut.get("repeat"), ut.get("stack_sub_trajectories"), ut.get("build_ic_set")
    except KeyError as e:
        raise AnalysisBroken(f"anchor vanished: {e}")
    Sf = UFun("S", mode="term")
    states = {"leaf": Term("u0"), "pytree": (Term("u0a"), Term("u0b"))}
    for sname, u0 in states.items():
        for takes_aux, constant_aux, include_init in itertools.product((False, True), (False, True), (False, True)):
            if not takes_aux and not constant_aux:
                continue
            key = f"exponax._utils.rollout#state={sname},takes_aux={takes_aux},constant_aux={constant_aux},include_init={include_init}"
            ok, why = True, ""
            if sname == "pytree":
                ok, why = _pytree_rollout(it, rollout, ns, takes_aux, constant_aux, include_init)
            else:
                aux = Term("aux")
                for n in ns:
                    aux_u = None
                    if takes_aux:
                        aux_u = aux if constant_aux else Stack([Term("aux", i) for i in range(n)])
                    it.ctx._scan_counter = [0]
                    fn = it.call(rollout, [Sf, NSYM], {"include_init": include_init, "takes_aux": takes_aux, "constant_aux": constant_aux})
                    res_n = it.call(fn, [u0, aux_u] if takes_aux else [u0])
                    try:
                        got = unroll(res_n, {"n": n}, it)
                    except Exception as e:
                        ok, why = False, f"cannot unroll the scan structure for n={n}: {type(e).__name__}: {e}"
                        break
                    if takes_aux:
                        traj = naive(lambda u, a: S_call(u, a), u0, n, aux_u if constant_aux else aux_u.items, constant_aux)
                    else:
                        traj = naive(lambda u: S_call(u), u0, n)
                    want = Stack(([u0] if include_init else []) + traj)
                    if got != want:
                        _require_modelled(got, key)
                        ok, why = False, f"n={n}: got {got} expected {want}"
                        break
            if ok:
                ck.ok("rollout", key, form=key)
            else:
                ck.fail("rollout", key, loc(rollout), f"rollout differs from the naive loop: {why}")
    for takes_aux, constant_aux in ((False, True), (True, True), (True, False)):
        key = f"exponax._utils.repeat#takes_aux={takes_aux},constant_aux={constant_aux}"
        u0 = Term("u0")
        aux = Term("aux")
        fn = it.call(repeat, [Sf, NSYM], {"takes_aux": takes_aux, "constant_aux": constant_aux})
        ok, why = True, ""
        for n in ns:
            aux_u = None if not takes_aux else (aux if constant_aux else Stack([Term("aux", i) for i in range(n)]))
            it.ctx._scan_counter = [0]
            res = it.call(fn, [u0, aux_u] if takes_aux else [u0])
            try:
                got = unroll(res, {"n": n}, it)
            except Exception as e:
                ok, why = False, f"cannot unroll for n={n}: {type(e).__name__}: {e}"
                break
            if takes_aux:
                traj = naive(lambda u, a: S_call(u, a), u0, n, aux_u if constant_aux else aux_u.items, constant_aux)
            else:
                traj = naive(lambda u: S_call(u), u0, n)
            want = traj[-1] if traj else u0
            if got != want:
                _require_modelled(got, key)
                ok, why = False, f"n={n}: got {got} expected {want}"
                break
        if ok:
            ck.ok("repeat", key, form=key)
        else:
            ck.fail("repeat", key, loc(repeat), f"repeat differs from the n-fold application: {why}")
    # ---- scan length is n (not n+1, not a constant)
    it.ctx.scan_sites = []
    it.call(it.call(rollout, [Sf, NSYM]), [Term("u0")])
    it.call(it.call(repeat, [Sf, NSYM]), [Term("u0")])
    for s in it.ctx.scan_sites:
        k = f"{s['fn']}#length"
        if s["length"] == repr(NSYM):
            ck.ok("scan-length", k)
        else:
            ck.fail("scan-length", k, f"{s['file']}:{s['line']}", f"scan length is {s['length']}, expected n")
    # ---- stack_sub_trajectories
    T_, sub = S("T"), S("sub")
    it2 = new_interp(ck.repo, parity=0)
    it2.ctx.facts.append((T_ - sub, ">=0"))
    sst2 = it2.module("exponax._utils").env.get("stack_sub_trajectories")
    trj = Tens((T_, 2, N), [Poly.atom(("u", "trj", c, "P")) for c in range(2)])
    for tree_name, tree in (("leaf", trj), ("pytree", (trj, trj))):
        key = f"exponax._utils.stack_sub_trajectories#{tree_name}"
        it2.ctx._scan_counter = [0]
        res = it2.call(sst2, [tree, sub])
        leaves = [res] if tree_name == "leaf" else list(res)
        ok = True
        why = ""
        for lf in leaves:
            if not (isinstance(lf, Term) and lf.op == "scan_map"):
                ok, why = False, f"result is not a scan over windows: {lf}"
                break
            win, bound, n_len = lf.args
            if as_poly(n_len) != T_ - sub + 1:
                ok, why = False, f"{n_len} windows instead of T - sub_len + 1"
                break
            w4 = _as_window(win)
            if w4 is None:
                ok, why = False, f"window is not rows [i, i+sub_len) of the time axis (dynamic_slice_in_dim / dynamic_slice / roll(-i, axis=0)[:sub_len]): {str(win)[:200]}"
                break
            operand, start, size, axis = w4
            st = start.data[0] if isinstance(start, Tens) else as_poly(start)
            if operand != trj or st != Poly.atom(bound) or as_poly(size) != sub or axis != 0:
                ok, why = False, f"window = dynamic_slice(trj, start={st}, size={size}, axis={axis}); expected start=i, size=sub_len, axis=0"
                break
        if ok:
            ck.ok("windows", key)
        else:
            ck.fail("windows", key, loc(sst), why)
    it3 = new_interp(ck.repo, parity=0)
    it3.ctx.facts.append((sub - T_, ">0"))
    try:
        it3.call(it3.module("exponax._utils").env.get("stack_sub_trajectories"), [trj, sub])
        ck.fail("windows", "exponax._utils.stack_sub_trajectories#guard-sub_len>T", loc(sst), "sub_len > T is accepted")
    except RepoRaise as e:
        (ck.ok if e.exc_name == "ValueError" else (lambda *a: ck.fail(*a, loc(sst), f"raises {e.exc_name}")))("windows", "exponax._utils.stack_sub_trajectories#guard-sub_len>T")
    trj_b = Tens((S("T2"), 2, N), [Poly.atom(("u", "trjb", c, "P")) for c in range(2)])
    try:
        it2.call(sst2, [(trj, trj_b), sub])
        ck.fail("windows", "exponax._utils.stack_sub_trajectories#guard-ragged", loc(sst), "leaves with different numbers of time steps are accepted")
    except RepoRaise as e:
        (ck.ok if e.exc_name == "ValueError" else (lambda *a: ck.fail(*a, loc(sst), f"raises {e.exc_name}")))("windows", "exponax._utils.stack_sub_trajectories#guard-ragged")
    # ---- RepeatedStepper
    it4 = new_interp(ck.repo, parity=0, stub_etdrk="nonlinear")
    it4.ctx.scan_term_mode = True
    RS = it4.module("exponax._repeated_stepper").env.get("RepeatedStepper")
    Diff = it4.module("exponax.stepper").env.get("Diffusion")
    for D in (1, 2):
        inner = it4.call(Diff, [D, L, N, S("dt_inner")], {"diffusivity": S("nu")})
        rs = it4.call(RS, [inner, NSYM])
        key = f"{RS.qual}#D={D}"
        probs = []
        if as_poly(rs.f.get("dt")) != S("dt_inner") * NSYM:
            probs.append(f"dt = {rs.f.get('dt')}, expected stepper.dt * n")
        for fld in ("num_spatial_dims", "domain_extent", "num_points", "num_channels", "dx"):
            if rs.f.get(fld) != inner.f.get(fld) and as_poly(rs.f.get(fld)) != as_poly(inner.f.get(fld)):
                probs.append(f"{fld} not copied from the inner stepper")
        if probs:
            ck.fail("repeated-stepper", key + "#metadata", loc(RS.find("__init__")), "; ".join(probs))
        else:
            ck.ok("repeated-stepper", key + "#metadata")
        u = state_phys(D, 1)
        it4.ctx._scan_counter = [0]
        res = it4.call(it4.getattr(rs, "step"), [u])
        ok, why = True, ""
        uh = Tens((1,) + (N,) * (D - 1) + (H_of(0),), [C.fft(u.data[0], D)])
        if not (isinstance(res, Term) and res.op == "jnp.fft.irfftn"):
            ok, why = False, f"step does not end in the inverse transform: {str(res)[:200]}"
        else:
            for n in ns:
                try:
                    got = unroll(res, {"n": n}, it4)
                except Exception as e:
                    ok, why = False, f"cannot unroll for n={n}: {type(e).__name__}: {e}"
                    break
                want = uh
                for _ in range(n):
                    want = it4.call(it4.getattr(inner, "step_fourier"), [want])
                inner_arg = got.args[0] if isinstance(got, Term) else None
                from vf.termeval import thaw

                arg0 = thaw(inner_arg)[0] if inner_arg is not None else None
                if not (isinstance(arg0, Tens) and arg0.shape == want.shape and arg0.data == want.data):
                    ok, why = False, f"n={n}: spectrum before the inverse transform is {str(arg0)[:300]}, expected {str(want)[:300]}"
                    break
        if ok:
            ck.ok("repeated-stepper", key + "#step")
        else:
            ck.fail("repeated-stepper", key + "#step", loc(RS.find("step_fourier")), why)
    # ---- build_ic_set
    G = UFun("G", mode="term")
    key0 = KeyVal(("root",))
    it5 = new_interp(ck.repo, parity=0)
    bis5 = it5.module("exponax._utils").env.get("build_ic_set")
    res = it5.call(bis5, [G], {"num_points": N, "num_samples": NSYM, "key": key0})
    ok, why = True, ""
    for n in ns:
        try:
            got = unroll(res, {"n": n}, it5)
        except Exception as e:
            ok, why = False, f"cannot unroll for n={n}: {type(e).__name__}: {e}"
            break
        k = key0
        want = []
        for i in range(n):
            k, sub_k = KeyVal(k.lineage + (("split", 0, 2),)), KeyVal(k.lineage + (("split", 1, 2),))
            want.append(Term("call", "G", [N], {"key": sub_k}))
        if got != Stack(want):
            ok, why = False, f"n={n}: got {got} expected {Stack(want)}"
            break
    if ok:
        ck.ok("ic-set", "exponax._utils.build_ic_set")
    else:
        ck.fail("ic-set", "exponax._utils.build_ic_set", loc(bis), why)
    # ---- (f) traced keys
    _traced_keys(ck)
    ck.assumptions += ["jax.lax.scan is the left fold (trusted); the unrolled comparison is exhaustive in the flag rows and checks n = 0..3 (0..5 thorough) of a structure that does not depend on n", "the stepper is an uninterpreted function: the statement holds for every stepper"]
    return ck.finish(
        explanation="rollout, repeat, stack_sub_trajectories, RepeatedStepper and build_ic_set are interpreted with an uninterpreted stepper / generator; the scan call (body with its carry and emitted value, init, xs, length) is captured as a structure, executed as the left fold it denotes for n = 0..3 and compared with the naive python loop for every combination of include_init / takes_aux / constant_aux and for leaf and pytree states; window starts, sizes and counts, the repeated stepper's metadata and n-fold Fourier-space sub-stepping, and the key-splitting chain of build_ic_set are compared exactly. Every exported IC generator is interpreted with a key whose draws count as traced values: any Python branch or coercion on them is reported.",
        rule_text="rule instances = (utility, flag row, state structure) ; each instance covers n in 0..3",
        trusted=["CPython ast", "left-fold semantics of jax.lax.scan", "jax.tree_util.tree_map structure semantics"],
    )


MODELLED_OPS = {"call", "row", "rows", "star", "binop", "cmp", "getitem", "scan_final", "scan_stack", "scan_map", "window", "dynamic_slice_in_dim", "dynamic_slice", "roll", "vmap_call"}


def _require_modelled(x, key):
    """a mismatch is a verdict only if every remaining structure has modelled semantics; an array operation the
    evaluator knows nothing about (jnp.tile of a leaf of unknown rank, ...) means `cannot decide`, not `differs`"""
    from vf.tens import Unsupported

    def walk(y):
        if isinstance(y, Term):
            if (y.op.startswith("jnp.") or y.op == "method") and y.op not in MODELLED_OPS:
                raise Unsupported(f"{key}: the unrolled structure contains {y.op}(...) whose effect on a leaf of unknown shape is not modelled: {str(y)[:160]}")
            for z in y.args:
                walk(z)
        elif isinstance(y, Stack):
            for z in y.items:
                walk(z)
        elif isinstance(y, (tuple, list)):
            for z in y:
                walk(z)
        elif isinstance(y, dict):
            for z in y.values():
                walk(z)

    walk(x)


def _as_window(win):
    """(operand, start, size, axis) if the structure denotes `size` consecutive rows of `operand` along `axis` starting at
    `start` - in any of the spellings jax offers"""
    if not isinstance(win, Term):
        return None
    if win.op == "dynamic_slice_in_dim":
        return tuple(win.args)
    if win.op == "dynamic_slice":
        operand, starts, sizes = win.args
        if not isinstance(operand, Tens) or len(starts) != operand.ndim or len(sizes) != operand.ndim:
            return None
        moving = [i for i, s_ in enumerate(starts) if not (isinstance(s_, int) and s_ == 0) and not (isinstance(s_, Poly) and s_.is_zero())]
        if len(moving) != 1:
            return None
        ax = moving[0]
        if any(i != ax and as_poly(sizes[i]) != as_poly(operand.shape[i]) for i in range(operand.ndim)):
            return None
        return (operand, starts[ax], sizes[ax], ax)
    if win.op == "getitem":
        src, idx = win.args
        if isinstance(src, Term) and src.op == "roll":
            operand, shift, axis = src.args
            sl = idx
            if isinstance(sl, tuple) and len(sl) == 1 and not (sl and sl[0] == "slice"):
                sl = sl[0]
            if isinstance(sl, slice):
                sl = ("slice", sl.start, sl.stop, sl.step)
            if isinstance(sl, tuple) and len(sl) == 4 and sl[0] == "slice" and sl[1] is None and sl[3] is None and sl[2] is not None and axis is not None:
                return (operand, -as_poly(shift), sl[2], axis)
    return None


def _pytree_rollout(it, rollout, ns, takes_aux, constant_aux, include_init):
    """state = (a, b); stepper maps the pair to (Sa(a,b), Sb(a,b))"""
    from vf.interp import PyClosure

    def step(it_, args, kwargs):
        u = args[0]
        rest = list(args[1:])
        return (Term("call", "Sa", [u[0], u[1]] + rest, {}), Term("call", "Sb", [u[0], u[1]] + rest, {}))

    Sp = PyClosure(step, "pair-stepper")
    u0 = (Term("u0a"), Term("u0b"))
    for n in ns:
        aux_u = None
        if takes_aux:
            aux_u = Term("aux") if constant_aux else Stack([Term("aux", i) for i in range(n)])
        it.ctx._scan_counter = [0]
        fn = it.call(rollout, [Sp, NSYM], {"include_init": include_init, "takes_aux": takes_aux, "constant_aux": constant_aux})
        res = it.call(fn, [u0, aux_u] if takes_aux else [u0])
        try:
            got = unroll(res, {"n": n}, it)
        except Exception as e:
            return False, f"pytree state, cannot unroll for n={n}: {type(e).__name__}: {e}"
        u = u0
        ta, tb = ([u0[0]] if include_init else []), ([u0[1]] if include_init else [])
        for i in range(n):
            rest = [] if not takes_aux else [aux_u if constant_aux else aux_u.items[i]]
            u = (Term("call", "Sa", [u[0], u[1]] + rest, {}), Term("call", "Sb", [u[0], u[1]] + rest, {}))
            ta.append(u[0])
            tb.append(u[1])
        want = (Stack(ta), Stack(tb))
        if not isinstance(got, (tuple, list)) or tuple(got) != want:
            return False, f"pytree state n={n}: got {str(got)[:300]} expected the per-leaf trajectories {str(want)[:300]}"
    return True, ""


def _traced_keys(ck):
    """scenario S3: the key (hence every drawn value) is a tracer inside build_ic_set's scan"""
    it = new_interp(ck.repo, parity=0, stub_etdrk="nonlinear")
    names = dict(catalog.all_list(it, "exponax.ic"))
    base = names.get("BaseRandomICGenerator")
    gens = []
    for nm, cls in names.items():
        if not hasattr(cls, "find") or cls.find("__call__") is None:
            continue
        f = cls.find("__call__")
        params = [p.arg for p in f.node.args.args] + [p.arg for p in f.node.args.kwonlyargs]
        if "key" not in params or nm in ("BaseRandomICGenerator",):
            continue
        gens.append((nm, cls))
    ck.floor("random generators", len(gens), 9)
    key = KeyVal(("traced",))

    def mk(nm, cls, D):
        inner = lambda: it.call(names["RandomTruncatedFourierSeries"], [D])
        if nm in ("ClampingICGenerator",):
            return it.call(cls, [inner()])
        if nm == "ScaledICGenerator":
            return it.call(cls, [inner(), S("sc")])
        if nm == "RandomMultiChannelICGenerator":
            return it.call(cls, [(inner(), inner())])
        kw = catalog.symbolic_kwargs(cls)
        kw = {k: v for k, v in kw.items() if k not in ("std",)}
        for k_ in list(kw):
            if k_ in ("cutoff", "num_blobs", "num_discontinuities"):
                kw.pop(k_)
        return it.call(cls, [D], kw)

    for nm, cls in gens:
        for D in (1, 2):
            k = f"exponax.ic.{nm}#traced-key,D={D}"
            try:
                g = mk(nm, cls, D)
            except RepoRaise as e:
                if e.exc_name == "ValueError":
                    continue  # dimension not supported by this generator
                raise
            it.ctx.events.clear()
            it.ctx.key_uses.clear()
            try:
                it.call(g, [N], {"key": key})
            except RepoRaise as e:
                ck.fail("traced-key", k, f"{e.file}:{getattr(e.node, 'lineno', '?')}", f"raises {e.exc_name}")
                continue
            bad = [e for e in it.ctx.events if e["kind"] in ("branch-on-symbolic", "truth-of-array", "coerce-array-to-python", "symbolic-equality-in-container") and "draw(" in (e["detail"] or "")]
            if bad:
                b = bad[0]
                ck.fail("traced-key", f"{b['fn']}#traced-branch#{b['src']}", f"{b['file']}:{b['line']}", f"python-level `{b['src']}` on a value drawn from the (traced) key when {nm} runs inside build_ic_set / jit / vmap: TracerBoolConversionError")
            else:
                ck.ok("traced-key", k)
