"""C19 - steps stay finite and precision-faithful (DESIGN 3, C19): structural clauses only.
Finiteness up to |lambda dt| = 1e15 and float32/float64 agreement need floating-point range analysis:
NOT decided."""

from __future__ import annotations

import ast
import os

from vf import alg, astrules
from vf import symops as SO
from vf.alg import Poly, as_poly
from vf.harness import Check, new_interp, N, L, DT, M, R, H_of, loc, AnalysisBroken, VERIF
from vf.interp import UFun, AnalysisError
from vf.tens import Tens

PROP = "C19"
LEVEL = "other"
S = Poly.sym
LAM = ("s", "lam")


def run(tier="quick", only_key=None):
    ck = Check(PROP, LEVEL, tier, only_key)
    ck.rule("no-pinned-precision", "no floating / complex width, dtype string or jax.config update in library code (outside viz); every dtype= keyword is bool or derived from an input's .dtype")
    ck.rule("fixture", "the precision rule matches its positive fixture")
    ck.rule("contour-shifted", "in every ETDRK coefficient every division is by a power of (r*rho_j + dt*lambda) - never by dt*lambda itself - and the only direct functions of dt*lambda are exponentials: finite at lambda = 0 and for stiff lambda")
    ck.rule("contour-off-axis", "for an even number of contour points (the default is 16) no point lies on the real axis: r*rho_j + dt*lambda is never 0 for a real symbol, whatever dt*lambda is (a point at +-1 makes every coefficient of the mode with dt*lambda = -+r a 0/0)")
    ck.rule("accumulator-dtype", "the contour-sum accumulators are zeros_like of a value derived from the linear operator (inherit its precision and complex type)")
    fx = ast.parse(open(os.path.join(VERIF, "selftest", "fixtures", "banned_constructs.py")).read())
    hits = {c for _, c, _ in astrules.precision_pins(fx)}
    need = {"jnp.float32", "jnp.complex64", "'float64'", "np.float32", "jax.config.update"}
    if need <= hits:
        ck.ok("fixture", "selftest/fixtures/banned_constructs.py")
    else:
        raise AnalysisBroken(f"precision rule no longer matches its fixture: missing {sorted(need - hits)}")
    n_mod = 0
    n_dtype_kw = 0
    for mod in ck.repo.modules.values():
        if ".viz" in mod.name:
            continue
        n_mod += 1
        pins = astrules.precision_pins(mod.tree)
        for ln, construct, why in pins:
            ck.fail("no-pinned-precision", f"{mod.name}#{construct}", f"{mod.path}:{ln}", f"{construct}: {why}; results would no longer follow the session's default precision")
        for n in ast.walk(mod.tree):
            if isinstance(n, ast.keyword) and n.arg == "dtype":
                n_dtype_kw += 1
        if not pins:
            ck.ok("no-pinned-precision", mod.name)
    ck.floor("modules scanned", n_mod, 50)
    ck.floor("dtype keywords seen", n_dtype_kw, 3)
    # ---- contour shift
    alg.COMPLEX_ATOMS.add(LAM)
    it = new_interp(ck.repo, parity=0, stub_etdrk=False)
    et = it.module("exponax.etdrk").env
    lam = Poly.atom(LAM)
    linop = Tens((1, N, H_of(0)), [lam])
    from props.c02 import _angle_over_pi

    rou = et.get("roots_of_unity")
    for M_ in (2, 4, 6, 8, 12, 16):
        key = f"exponax.etdrk._utils.roots_of_unity#off-axis#M={M_}"
        try:
            angles = [_angle_over_pi(e) for e in it.call(rou, [M_]).data]
        except (ValueError, AnalysisError) as ex:
            ck.notes.append(f"contour points for M={M_} not readable as exp(i pi q): {str(ex)[:100]} (rule skipped for this M)")
            continue
        on_axis = [a for a in angles if a.denominator == 1]
        if on_axis:
            ck.fail("contour-off-axis", key, loc(rou), f"with M={M_} the contour contains the real point(s) exp(i pi {[str(a) for a in on_axis]}): the coefficients of a mode with dt*lambda = -+r are 0/0")
        else:
            ck.ok("contour-off-axis", key)
    n_coef = 0
    for n in range(1, 5):
        cls = et.get(f"ETDRK{n}")
        o = it.call(cls, [DT, linop, UFun("Nl")], {"num_circle_points": M, "circle_radius": R})
        at = loc(cls.find("__init__"))
        for fld, v in o.f.items():
            if not isinstance(v, Tens) or not (fld.startswith("_coef") or fld.endswith("exp_term")):
                continue
            key = f"{cls.qual}.__init__#{fld}"
            e = v.data[0]
            bad = None
            if fld.endswith("exp_term"):
                if not all(a[0] in ("exp", "expi") for a in e.atoms()):
                    bad = f"{fld} is not a pure exponential: {e}"
            else:
                n_coef += 1
                for a in e.all_atoms():
                    if a == LAM:
                        continue
                for m in _all_monos(e):
                    for a, x in m:
                        if a == LAM and x < 0:
                            bad = "division by dt*lambda itself (0/0 at lambda = 0, cancellation for small |lambda dt|)"
                        if a[0] == "P" and x < 0:
                            q = a[1]
                            has_root = any(b[0] in ("expi",) or b == ("idx", "j") for b in q.all_atoms())
                            if LAM in q.all_atoms() and not has_root:
                                bad = f"division by {q}, which is not shifted onto the contour"
                if not any(a[0] == "RSum" for a in e.all_atoms()):
                    bad = bad or "coefficient is not a mean over the contour points"
            if bad:
                ck.fail("contour-shifted", key, at, bad, code=str(e)[:2000])
            else:
                ck.ok("contour-shifted", key, form=e)
    ck.floor("coefficient fields", n_coef, 14)
    # ---- accumulators (syntactic def-use inside the constructors)
    for n in range(1, 5):
        cls = et.get(f"ETDRK{n}")
        f = cls.find("__init__")
        assigns = {}
        for st in ast.walk(f.node):
            if isinstance(st, ast.Assign) and len(st.targets) == 1 and isinstance(st.targets[0], ast.Name):
                assigns[st.targets[0].id] = st.value
        scans = [c for c in ast.walk(f.node) if isinstance(c, ast.Call) and ast.unparse(c.func).endswith("lax.scan")]
        key = f"{cls.qual}.__init__#accumulator"
        if len(scans) != 1:
            ck.fail("accumulator-dtype", key, loc(f), f"expected exactly one contour scan, found {len(scans)}")
            continue
        init = scans[0].args[1] if len(scans[0].args) > 1 else None
        names = _roots(init, assigns)
        zl = _contains_zeros_like(init, assigns)
        if zl and ("linear_operator" in names) and not _real_part(init, assigns):
            ck.ok("accumulator-dtype", key)
        else:
            why = "is reduced to its real part (complex coefficients cannot be accumulated)" if _real_part(init, assigns) else "is not zeros_like of a value derived from the linear operator"
            ck.fail("accumulator-dtype", key, f"{cls.module.path}:{scans[0].lineno}", f"the scan accumulator {ast.unparse(init) if init is not None else None} {why}")
    ck.assumptions += ["finiteness for |lambda dt| up to 1e15 in float32/float64 and float32-vs-float64 agreement are floating-point range / rounding questions: NOT decided", "dtype propagation through jnp primitives and rfftn/irfftn is library behaviour"]
    return ck.finish(
        explanation="Structural clauses of precision faithfulness: an AST rule over all non-viz modules forbids hard-coded widths, dtype strings and configuration updates (kept alive by a positive fixture); the canonical ETDRK coefficients (computed by abstract interpretation with a symbolic complex lambda) may only divide by powers of the contour-shifted argument and must be contour means; the stored propagators must be pure exponentials; the scan accumulators must be zeros_like of a value derived from the linear operator without real-part truncation.",
        rule_text="instances = modules, coefficient fields, integrator constructors",
        trusted=["CPython ast", "vf normal forms"],
    )


def _all_monos(e):
    out = []

    def rec(p):
        for m in p.t:
            out.append(m)
            for a, _ in m:
                for x in a[1:]:
                    if isinstance(x, Poly):
                        rec(x)

    rec(e)
    return out


def _roots(node, assigns, depth=0):
    names = set()
    if node is None or depth > 6:
        return names
    for n in ast.walk(node):
        if isinstance(n, ast.Name):
            names.add(n.id)
            if n.id in assigns:
                names |= _roots(assigns[n.id], assigns, depth + 1)
    return names


def _contains_zeros_like(node, assigns, depth=0):
    if node is None or depth > 6:
        return False
    for n in ast.walk(node):
        if isinstance(n, ast.Call) and ast.unparse(n.func).endswith("zeros_like"):
            return True
        if isinstance(n, ast.Name) and n.id in assigns and _contains_zeros_like(assigns[n.id], assigns, depth + 1):
            return True
    return False


def _real_part(node, assigns, depth=0):
    if node is None or depth > 6:
        return False
    for n in ast.walk(node):
        if isinstance(n, ast.Call) and ast.unparse(n.func).endswith("zeros_like"):
            for a in n.args:
                for x in ast.walk(a):
                    if isinstance(x, ast.Attribute) and x.attr in ("real", "imag"):
                        return True
                    if isinstance(x, ast.Call) and ast.unparse(x.func).split(".")[-1] in ("real", "abs"):
                        return True
        if isinstance(n, ast.Name) and n.id in assigns and _real_part(assigns[n.id], assigns, depth + 1):
            return True
    return False
