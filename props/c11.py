"""C11 - dissipative and dispersive linear steppers never amplify any state (DESIGN 3, C11)."""

from __future__ import annotations

import itertools
from fractions import Fraction as Fr

from vf import alg, catalog
from vf import symops as SO
from vf.alg import Poly, as_poly
from vf.harness import Check, new_interp, N, L, DT, H_of, loc, AnalysisBroken, state_hat
from vf.interp import Obj, RepoRaise
from vf.tens import Tens
from specs import common as C
from props.c01 import vec, mat, as_list

PROP = "C11"
LEVEL = "translation_validation"
S = Poly.sym


def rows(name, D):
    """(label, ctor kwargs, sign constraints {symbol name: +1 (>=0) | -1 (<=0)}, spd matrix or None)
    restricted to the documented non-amplifying coefficient ranges"""
    if name == "Advection":
        return [("scalar", {"velocity": S("c")}, {}, None), ("vector", {"velocity": vec("c", D)}, {}, None)]
    if name == "Diffusion":
        return [
            ("scalar nu>=0", {"diffusivity": S("nu")}, {"nu": 1}, None),
            ("vector nu_j>=0", {"diffusivity": vec("nu", D)}, {f"nu{j}": 1 for j in range(D)}, None),
            ("SPD matrix", {"diffusivity": mat("A", D)}, {}, "A"),
        ]
    if name == "AdvectionDiffusion":
        out = []
        for fv, v in (("scalar", S("c")), ("vector", vec("c", D))):
            out.append((f"velocity={fv}, nu>=0", {"velocity": v, "diffusivity": S("nu")}, {"nu": 1}, None))
            out.append((f"velocity={fv}, SPD matrix", {"velocity": v, "diffusivity": mat("A", D)}, {}, "A"))
        return out
    if name == "Dispersion":
        return [(f"mix={m}", {"dispersivity": S("xi"), "advect_on_diffusion": m}, {}, None) for m in (False, True)] + [("vector", {"dispersivity": vec("xi", D)}, {}, None)]
    if name == "HyperDiffusion":
        return [(f"mu>=0,mix={m}", {"hyper_diffusivity": S("mu"), "diffuse_on_diffuse": m}, {"mu": 1}, None) for m in (False, True)]
    if name in ("GeneralLinearStepper", "NormalizedLinearStepper", "DifficultyLinearStepper"):
        # even orders: a_j (i k)^j = a_j (-1)^(j/2) k^j  must be <= 0
        kwname = {"GeneralLinearStepper": "linear_coefficients", "NormalizedLinearStepper": "normalized_linear_coefficients", "DifficultyLinearStepper": "linear_difficulties"}[name]
        a = tuple(S(f"a{j}") for j in range(7))
        signs = {f"a{j}": (-1 if (j // 2) % 2 == 0 else 1) for j in range(0, 7, 2)}
        return [("a0<=0,a2>=0,a4<=0,a6>=0, odd free", {kwname: a}, signs, None)]
    if name == "DifficultyLinearStepperSimple":
        return [(f"order={o}", {"difficulty": S("g"), "order": o}, ({"g": (-1 if (o // 2) % 2 == 0 else 1)} if o % 2 == 0 else {}), None) for o in range(0, 6)]
    return None


def term_sign(m, c, signs):
    """sign (+1/-1/0) of a real monomial term given sign constraints; None if not determined"""
    if c.im != 0:
        return None
    s = 1 if c.re > 0 else -1
    for a, e in m:
        if a[0] == "s" and a[1] in signs:
            if isinstance(e, int) and e % 2 == 0:
                continue
            if not isinstance(e, int):
                return None
            s *= signs[a[1]]
        elif a[0] == "k":
            if not (isinstance(e, int) and e % 2 == 0):
                return None
        elif alg._atom_nonneg(a):
            continue
        else:
            return None
    return s


def run(tier="quick", only_key=None):
    ck = Check(PROP, LEVEL, tier, only_key)
    ck.rule("real-part", "with real wavenumbers the real part of the linear symbol is a sum of -(documented non-negative coefficient)*(even powers), or -(2pi/L)^2 k^T A k for an SPD matrix, or identically zero")
    ck.rule("propagator", "the step multiplies every mode by exp(dt*symbol), hence |multiplier| = exp(dt*Re symbol) <= 1 for dt > 0 and = 1 when Re symbol == 0")
    ck.rule("wave-energy", "wave step: multipliers are unimodular, the travelling-wave rotation is orthonormal, c^2|kappa|^2|h|^2 + |v|^2 is invariant (algebraic identity of the canonical step)")
    n_rows = 0
    classes = set()
    for parity in (0, 1):
        it = new_interp(ck.repo, parity=parity, stub_etdrk="nonlinear")
        for pub, cls in catalog.exported_steppers(it):
            dims, _ = catalog.allowed_dims(it, cls)
            if not dims:
                continue
            probe = catalog.build(it, cls, dims[0])
            integ = probe.f.get("_integrator")
            if not (isinstance(integ, Obj) and integ.cls.name == "ETDRK0"):
                continue
            classes.add(cls.name)
            if cls.name == "Wave":
                _wave(ck, it, cls, parity)
                continue
            for D in dims:
                rs = rows(cls.name, D)
                if rs is None:
                    raise AnalysisBroken(f"linear stepper {cls.name} has no sign table in props/c11.py")
                for label, kw, signs, spd in rs:
                    key = f"{cls.qual}#D={D},Nparity={parity},{label}"
                    at = loc(cls.find("_build_linear_operator"))
                    o = catalog.construct(it, cls, catalog.positional_args(cls, D), kw)
                    integ = o.f["_integrator"]
                    Dv = C.deriv(D, as_poly(o.f["domain_extent"]))
                    lin = it.call(cls.find("_build_linear_operator"), [o, Tens((D,) + (N,) * (D - 1) + (H_of(parity),), Dv)])
                    n_rows += 1
                    sym = lin.data[0]
                    try:
                        re, im = alg.split_real_imag(sym)
                    except alg.AlgError as ex:
                        ck.fail("real-part", key, at, f"cannot split the symbol into real and imaginary part: {ex}")
                        continue
                    bad = None
                    if spd:
                        Lx = as_poly(o.f["domain_extent"])
                        ks = C.kvec(D)
                        quad = -((2 * alg.PI / Lx) ** 2) * sum((S(f"{spd}{i}{j}") * ks[i] * ks[j] for i in range(D) for j in range(D)), Poly())
                        if re != quad:
                            bad = f"real part {re} is not -(2 pi/L)^2 k^T A k"
                    else:
                        for m, c in re.t.items():
                            sg = term_sign(m, c, signs)
                            if sg is None:
                                bad = f"sign of real-part term {alg.fmt(Poly({m: c}))} is not determined by the documented coefficient constraints"
                                break
                            if sg > 0:
                                bad = f"real-part term {alg.fmt(Poly({m: c}))} is positive: modes are amplified"
                                break
                    if bad:
                        ck.fail("real-part", key, at, bad, code=str(re))
                    else:
                        ck.ok("real-part", key, form=re)
                        ck.sample({"rule": "real-part", "key": key, "Re(symbol)": str(re), "Im(symbol)": str(im)[:200]})
                    e = integ.f.get("_exp_term")
                    dt = as_poly(o.f["dt"])
                    if isinstance(e, Tens) and e.data == [alg.exp(dt * sym)] and integ.f.get("dt") == o.f["dt"]:
                        ck.ok("propagator", key + "#propagator")
                    else:
                        ck.fail("propagator", key + "#propagator", loc(integ.cls.find("__init__")), "propagator is not exp(dt*symbol) with the stepper's dt")
    ck.floor("linear stepper classes", len(classes), 10)
    ck.floor("rows", n_rows, 80)
    ck.assumptions += [
        "documented coefficient constraints: nu >= 0, mu >= 0, diffusivity matrix symmetric positive definite (k^T A k >= 0 is taken from the documentation), general family a_0<=0, a_2>=0, a_4<=0, a_6>=0",
        "||irfftn(.)|| <= ||.|| (dropping the non-Hermitian part) is a library property and rounding is not decided",
    ]
    return ck.finish(
        explanation="For every exported order-0 stepper and D in {1,2,3}, N even/odd, the canonical Fourier symbol (wavenumbers real) is split into real and imaginary part; a sign domain over the documented coefficient constraints shows every real-part term is non-positive (or the real part is the SPD quadratic form / identically zero). The stored propagator must be exp(dt*symbol). For the wave stepper unimodularity of the multipliers, orthonormality of the rotation and invariance of the wave energy are polynomial identities of the canonical step.",
        rule_text="one program = (stepper, D, parity, coefficient row); distinct = distinct real parts",
        trusted=["CPython ast", "vf normal forms", "sign constraints from the docstrings"],
    )


def _wave(ck, it, cls, parity):
    c = S("c")
    for D in (1, 2, 3):
        key0 = f"{cls.qual}#D={D},Nparity={parity}"
        o = it.call(cls, [D, L, N, DT], {"speed_of_sound": c})
        u = state_hat(D, 2, parity)
        h, v = u.data
        for a in (h, v):
            pass
        res = it.call(it.getattr(o, "step_fourier"), [u])
        at = loc(cls.find("step_fourier"))
        try:
            hn, vn = [SO.specialize(e, "generic") for e in res.data]
        except alg.AlgError as ex:
            ck.fail("wave-energy", key0 + "#energy", at, f"step singular off the mean mode: {ex}")
            continue
        kap2 = sum(((2 * alg.PI / L * k) ** 2 for k in C.kvec(D)), Poly())
        cj = alg.conj_poly
        e_old = c * c * kap2 * h * cj(h) + v * cj(v)
        e_new = c * c * kap2 * hn * cj(hn) + vn * cj(vn)
        ck.compare("wave-energy", key0 + "#energy", at, e_new, e_old, what="wave energy c^2|kappa|^2|h|^2+|v|^2 is not invariant under the step")
        # multipliers unimodular
        integ = o.f["_integrator"]
        E = [SO.specialize(e, "generic") for e in integ.f["_exp_term"].data]
        ck.compare("wave-energy", key0 + "#unimodular", loc(cls.find("_build_linear_operator")), [e * cj(e) for e in E], [Poly.const(1)] * len(E), what="wave multipliers are not unimodular")
        # rotation orthonormal: forward transform in the variables (w = i c kappa h, v)
        w = it.call(it.getattr(o, "_forward_transform"), [u])
        pos, neg = [SO.specialize(e, "generic") for e in w.data]
        norm = pos * cj(pos) + neg * cj(neg)
        ck.compare("wave-energy", key0 + "#rotation", loc(cls.find("_forward_transform")), norm, c * c * kap2 * h * cj(h) + v * cj(v), what="travelling-wave transform does not preserve the energy norm (rotation not orthonormal)")
