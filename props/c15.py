"""C15 - Fourier interpolation and resolution changes are exact for band-limited states (DESIGN 3, C15)."""

from __future__ import annotations

import itertools
from fractions import Fraction as Fr

from vf import alg
from vf import symops as SO
from vf.alg import Poly, as_poly
from vf.harness import Check, new_interp, N, L, H_of, loc, AnalysisBroken, call_forking
from vf.interp import RepoRaise
from vf.tens import Tens
from specs import common as C

PROP = "C15"
LEVEL = "translation_validation"
S = Poly.sym
NO, NN = S("Nold"), S("Nnew")


def run(tier="quick", only_key=None):
    ck = Check(PROP, LEVEL, tier, only_key)
    ck.rule("interpolant", "FourierInterpolator(u)(x)_c = Re sum over stored modes of (u^_c / S_reconstruction) * exp(i (2 pi/L) k . x)")
    ck.rule("resolution-change", "map_between_resolutions = ifft( band(k) * (N_new/N_old)^D * [Nyquist removal on the even smaller grid] * fft(u) ), band = wavenumbers stored on the smaller grid; equal sizes return the state")
    ck.rule("block-fit", "every copied block [:a] / [-b:] fits into the non-negative / negative half of both the old and the new spectrum (same wavenumbers on both sides)")
    ck.rule("mean-preserved", "the mean mode is copied and rescaled by (N_new/N_old)^D")
    # ---- (a) interpolant
    for parity in (0, 1):
        it = new_interp(ck.repo, parity=parity)
        FI = it.module("exponax._interpolation").env.get("FourierInterpolator")
        bsa = it.module("exponax._spectral").env.get("build_scaling_array")
        for D in (1, 2, 3):
            for Cn in (1, 2):
                u = Tens((Cn,) + (N,) * D, [Poly.atom(("u", "u", c, "P")) for c in range(Cn)])
                key = f"{FI.qual}#D={D},C={Cn},Nparity={parity}"
                o = it.call(FI, [u], {"domain_extent": L})
                x = Tens((D,), [S(f"x{j}") for j in range(D)])
                res = it.call(o, [x])
                S_rec = C.scaling(D, "reconstruction", parity)
                fshape = (N,) * (D - 1) + (H_of(parity),)
                phase = alg.exp(sum((alg.I * (2 * alg.PI / L) * k * S(f"x{j}") for j, k in enumerate(C.kvec(D))), Poly()))
                ref = Tens((Cn,), [alg.real(SO.sym_sum(C.fft(u.data[c], D) / S_rec * phase, fshape)) for c in range(Cn)])
                ck.compare("interpolant", key, loc(FI.find("__call__")), res, ref)
                # indexing="xy": query coordinate j pairs with the wavenumbers of the array axis along which make_grid(xy)
                # lays out coordinate j
                if D > 1 and Cn == 1:
                    mg = it.module("exponax._utils").env.get("make_grid")
                    g = it.call(mg, [D, L, N], {"indexing": "xy"})
                    gax = [sorted({a[1][1] for a in e.all_atoms() if a[0] == "idx"}) for e in g.data]
                    if not all(len(a) == 1 for a in gax):
                        raise AnalysisBroken(f"make_grid(indexing='xy') components are not single-axis: {gax}")
                    kv = C.kvec(D)
                    o2 = it.call(FI, [u], {"domain_extent": L, "indexing": "xy"})
                    res2 = it.call(o2, [x])
                    phase2 = alg.exp(sum((alg.I * (2 * alg.PI / L) * kv[gax[j][0]] * S(f"x{j}") for j in range(D)), Poly()))
                    ref2 = Tens((Cn,), [alg.real(SO.sym_sum(C.fft(u.data[c], D) / S_rec * phase2, fshape)) for c in range(Cn)])
                    ck.compare("interpolant", key + ",indexing=xy", loc(FI.find("__init__")), res2, ref2)
    # ---- (b)-(d) resolution change
    rows = 0
    for po, pn, up, odd0 in itertools.product((0, 1), (0, 1), (True, False), (True, False)):
        it = new_interp(ck.repo, parity=0, extra_parity={("s", "Nold"): po, ("s", "Nnew"): pn})
        it.ctx.facts.append(((NN - NO) if up else (NO - NN), ">0"))
        mbr = it.module("exponax._interpolation").env.get("map_between_resolutions")
        for D in (1, 2, 3):
            Cn = 2
            u = Tens((Cn,) + (NO,) * D, [Poly.atom(("u", "u", c, "P")) for c in range(Cn)])
            key = f"exponax._interpolation.map_between_resolutions#D={D},old_parity={po},new_parity={pn},{'up' if up else 'down'},oddball_zero={odd0}"
            it.ctx.events.clear()
            variants = call_forking(it, mbr, [u, NN], {"oddball_zero": odd0})
            rows += 1
            for assume, res in variants:
                vkey = key + ("" if not assume else "#if " + " and ".join(f"{c} is {v}" for c, v in assume))
                if any(v and "fn(mod," in c and "==0" in c and (("Nold,Nnew" in c) == up) for c, v in assume):
                    continue  # infeasible world: the smaller size is not a multiple of the larger one
                if isinstance(res, Exception):
                    at_ = f"{res.file}:{getattr(res.node, 'lineno', '?')}" if isinstance(res, RepoRaise) else loc(mbr)
                    ck.fail("resolution-change", vkey, at_, f"raises {getattr(res, 'exc_name', type(res).__name__)}: {str(res)[:160]}")
                    continue
                if not isinstance(res, Tens) or tuple(map(str, res.shape)) != tuple(map(str, (Cn,) + (NN,) * D)):
                    ck.fail("resolution-change", vkey, loc(mbr), f"result has shape {getattr(res, 'shape', None)} instead of (C,) + (N_new,)*D")
                    continue
                fits = [e for e in it.ctx.events if e["kind"] in ("block-fit", "block-misfit")]
                bad = [e for e in fits if e["kind"] == "block-misfit"]
                if bad:
                    ck.fail("block-fit", vkey + "#blocks", f"{bad[0]['file']}:{bad[0]['line']}", f"copied block does not denote the same wavenumbers in both spectra: {bad[0]['detail']}")
                elif not fits:
                    ck.fail("block-fit", vkey + "#blocks", loc(mbr), "no mode block is copied")
                else:
                    ck.ok("block-fit", vkey + "#blocks", form=[e["detail"] for e in fits])
                # reference
                Nmin = NO if up else NN
                pmin = po if up else pn
                m = (Nmin - pmin) / 2
                ks = C.kvec(D)
                band = Poly.const(1)
                for j, k in enumerate(ks):
                    if j == D - 1:
                        band = band * alg.ind("lt", k, m + 1)
                    else:
                        band = band * (alg.ind("le", 0, k) * alg.ind("lt", k, m + pmin) + alg.ind("le", -m, k) * alg.ind("lt", k, 0))
                mult = band * (NN / NO) ** D
                if odd0 and pmin == 0:
                    mult = mult * C.lowpass(D, Nmin / 2 - 1)
                ref = Tens((Cn,) + (NN,) * D, [C.ifft(mult * C.fft(u.data[c], D), D) for c in range(Cn)])
                res = Tens(res.shape, [SO.kill_contradictions(e) for e in res.data])
                ref = Tens(ref.shape, [SO.kill_contradictions(e) for e in ref.data])
                ck.compare("resolution-change", vkey, loc(mbr), res, ref, what="result differs from ifft(band * (N_new/N_old)^D * [oddball] * fft(u))")
                # mean preserved: the multiplier at the mean mode is (N_new/N_old)^D
                dc = None
                for e in res.data[:1]:
                    idc = [a for a in e.all_atoms() if a[0] == "Idc"]
                    coeff = Poly()
                    for mm, cc in e.t.items():
                        if any(a[0] == "Idc" for a, _ in mm):
                            coeff = coeff + Poly({tuple((a, x) for a, x in mm if a[0] != "Idc"): cc})
                    dc = SO.assume_mean_mode_retained(coeff)
                # indicators 1{0 < m+1} etc. are true for every grid (m >= 1)
                dcn = _positivity(dc)
                ck.compare("mean-preserved", vkey + "#mean", loc(mbr), dcn, (NN / NO) ** D, what="mean mode is not rescaled by (N_new/N_old)^D")
    # equal sizes
    it = new_interp(ck.repo, parity=0)
    mbr = it.module("exponax._interpolation").env.get("map_between_resolutions")
    u = Tens((1, N, N), [Poly.atom(("u", "u", 0, "P"))])
    res = it.call(mbr, [u, N])
    ck.compare("resolution-change", "exponax._interpolation.map_between_resolutions#equal-sizes", loc(mbr), res, u)
    ck.floor("resolution rows", rows, 48)
    ck.assumptions += ["grids have at least 3 points (the band contains the modes 0 and +-1)", "numeric exactness on band-limited states follows from the formula and exact FFTs; not decided", "scaling arrays per C04"]
    return ck.finish(
        explanation="FourierInterpolator is interpreted with a symbolic state and query point and compared with the documented interpolant. map_between_resolutions is interpreted for two symbolic grid sizes with all 16 combinations of (old parity, new parity, up/down, oddball_zero) and D in {1,2,3}: slices of spectra are interpreted as wavenumber sets, every block must fit into the non-negative / negative half of both spectra (exact integer reasoning on N_old < N_new with their parities), and the result must equal ifft(band * (N_new/N_old)^D * Nyquist-removal * fft(u)); the mean-mode multiplier must be (N_new/N_old)^D.",
        rule_text="one program = (D, old parity, new parity, direction, oddball_zero) or (D, C, parity) for the interpolant",
        trusted=["CPython ast", "vf normal forms", "numpy slicing / rfftn layout semantics in vf/jnpops.py"],
    )


def _positivity(p):
    """resolve indicators that compare a non-negative constant with a strictly positive size expression"""

    def f(a):
        if a[0] == "ind" and a[1] in ("lt", "le"):
            l, r = a[2], a[3]
            if l.is_zero() and r.t and all(c.im == 0 and c.re > 0 and all(alg._atom_pos(x) for x, _ in m) for m, c in r.t.items()):
                return Poly.const(1)
            if r.is_zero() and l.t and all(c.im == 0 and c.re < 0 and all(alg._atom_pos(x) for x, _ in m) for m, c in l.t.items()):
                return Poly.const(1)
            d = r - l
            # 0 < (N - eps)/2 + 1  etc.: treat N >= 3
            vals = []
            for Nv in (3, 4, 5, 8):
                sub = {at: Poly.const(Nv) for at in d.all_atoms() if at[0] == "s" and at[1] in ("N", "Nold", "Nnew")}
                v = alg.subs(d, sub).as_number()
                vals.append(v)
            if all(v is not None and (v > 0 if a[1] == "lt" else v >= 0) for v in vals):
                return Poly.const(1)
        return None

    return alg.map_atoms(p, f)
