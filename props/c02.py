"""C02 - ETDRK steppers realise the order-p exponential Runge-Kutta scheme exactly (DESIGN 3, C02)."""

from __future__ import annotations

import ast
from fractions import Fraction as Fr

from vf import alg, catalog
from vf.alg import Poly, as_poly
from vf.harness import Check, new_interp, N, L, DT, M, R, H_of, loc, AnalysisBroken, state_hat
from vf.interp import UFun, Obj, RepoRaise, ClassVal, AnalysisError
from vf.tens import Tens
from specs import etdrk as SP

PROP = "C02"
LEVEL = "translation_validation"

LAM = ("s", "lam")


def _super_init_keywords(cls):
    """keywords of the super().__init__(...) call inside cls.__init__"""
    f = cls.find("__init__")
    for n in ast.walk(f.node):
        if isinstance(n, ast.Call) and isinstance(n.func, ast.Attribute) and n.func.attr == "__init__" and isinstance(n.func.value, ast.Call) and getattr(n.func.value.func, "id", "") == "super":
            return n.keywords
    return []


def _zero_symbol_indicators(code):
    """indicator atoms 1{q == 0} whose q involves nothing but the linear symbol and dt"""
    out = set()
    for e in code.data:
        for a in as_poly(e).all_atoms():
            if a[0] == "ind" and a[1] == "eq":
                q = a[2] - a[3]
                ats = q.all_atoms()
                if ats and all(b == LAM or (b[0] == "s" and b[1] == "dt") for b in ats) and LAM in ats:
                    out.add(a)
    return sorted(out, key=repr)


def _limit_at_zero(f):
    """f(0) of a closed form with a removable singularity at 0, from the exact power series of the specification"""
    old = SP.Ser.DEG
    SP.Ser.DEG = old + 4
    try:
        z = SP.Ser.z()
        ser = f(z, SP._exp_series(z), SP._exp_series(z * Fr(1, 2)))
        return ser.d.get((0, 0), Fr(0))
    finally:
        SP.Ser.DEG = old


def _angle_over_pi(e):
    """q (mod 2) with e == exp(i pi q), for a canonical form made of expi(pi) powers and conjugates"""
    from fractions import Fraction as Fr_

    e = as_poly(e)
    if len(e.t) != 1:
        raise ValueError(str(e))
    ((m, c),) = e.t.items()
    if c != alg.ONE:
        if c == -alg.ONE and not m:
            return Fr_(1)
        raise ValueError(str(e))
    q = Fr_(0)
    for a, x in m:
        if a[0] == "expi" and str(Poly({a[1]: alg.ONE}) if not isinstance(a[1], Poly) else a[1]) == "pi":
            q += Fr_(x)
        elif a[0] == "conj":
            q -= _angle_over_pi(a[1]) * Fr_(x)
        else:
            raise ValueError(str(e))
    return q % 2


def run(tier="quick", only_key=None):
    ck = Check(PROP, LEVEL, tier, only_key)
    ck.rule("spec-selfcheck", "the reference table satisfies the phi-function identities and the order conditions (exact power series)")
    ck.rule("coef-form", "each stored coefficient array equals dt * mean over the M contour points of the closed form f(r*rho_j + dt*lambda), for a complex symbol lambda")
    ck.rule("exp-term", "_exp_term = exp(dt*lambda), _half_exp_term = exp(dt*lambda/2)")
    ck.rule("roots", "contour points are exp(2 pi i (j-1/2)/M), j=1..M")
    ck.rule("stage-form", "step_fourier equals the Cox-Matthews stage recursion over the stored fields, nonlinear term uninterpreted")
    ck.rule("dispatch", "BaseStepper dispatches order p to ETDRKp with dt, the linear operator, the nonlinear function, M and r forwarded unchanged; other orders raise")
    ck.rule("ctor-forwarding", "every exported stepper with an `order` parameter forwards order, num_circle_points and circle_radius to the base class")
    alg.COMPLEX_ATOMS.add(LAM)

    # ---- 0. spec self validation
    for name, ok, _ in SP.validate():
        if ok:
            ck.ok("spec-selfcheck", name)
        else:
            raise AnalysisBroken(f"reference table fails its own validation: {name}")

    it = new_interp(ck.repo, parity=0, stub_etdrk=False)
    et = it.module("exponax.etdrk")
    lam = Poly.atom(LAM)
    Hs = H_of(0)
    linop = Tens((1, N, Hs), [lam])
    NLf = UFun("Nl")
    classes = {}
    for n in range(5):
        try:
            classes[n] = et.env.get(f"ETDRK{n}")
        except KeyError:
            raise AnalysisBroken(f"exponax.etdrk.ETDRK{n} vanished")
    # ---- 1. roots of unity
    try:
        rou = et.env.get("roots_of_unity")
    except KeyError:
        raise AnalysisBroken("exponax.etdrk.roots_of_unity vanished")
    # (a) concrete contour sizes: the M returned points are exactly the documented ones (as a multiset: the contour mean
    #     does not depend on their order), for every M up to 12, odd and even
    from fractions import Fraction as Fr_

    for M_ in range(1, 13):
        key_c = f"exponax.etdrk._utils.roots_of_unity#M={M_}"
        r_ = it.call(rou, [M_])
        want = sorted((Fr_(2 * j - 1, M_) % 2) for j in range(1, M_ + 1))
        try:
            got = sorted(_angle_over_pi(e) for e in r_.data) if isinstance(r_, Tens) else None
        except ValueError as ex:
            ck.notes.append(f"roots_of_unity({M_}): a contour point is not of the form exp(i pi q) ({ex}); concrete rule skipped, the symbolic one decides")
            continue
        if got == want and tuple(r_.shape) == (M_,):
            ck.ok("roots", key_c)
        else:
            ck.fail("roots", key_c, loc(rou), f"roots_of_unity({M_}) returns {len(got) if got is not None else '?'} points at angles pi*{[str(x) for x in (got or [])]}; documented: {M_} points at pi*{[str(x) for x in want]} (every ETDRK coefficient divides the contour sum by M)")
    # (b) symbolic M
    try:
        roots = it.call(rou, [M])
    except AnalysisError as ex:
        if ck.violations:
            return ck.finish(explanation="ABORTED after the contour points were found wrong for concrete sizes; " + str(ex)[:200], rule_text="contour points for M = 1..12", exhaustive=False)
        raise
    code_root = alg.map_atoms(roots.data[0], lambda a: Poly.atom(SP.BOUND) if a == ("idx", "ar") else None)
    ck.compare("roots", "exponax.etdrk._utils.roots_of_unity", loc(rou), (tuple(roots.shape), code_root), ((M,), SP.root_of_unity_rep(M)))

    # ---- 2. coefficients and exponentials
    n_coef = 0
    for n in range(0, 5):
        cls = classes[n]
        cname = f"ETDRK{n}"
        if n == 0:
            obj = it.call(cls, [DT, linop])
        else:
            obj = it.call(cls, [DT, linop, NLf], {"num_circle_points": M, "circle_radius": R})
        at = loc(cls.find("__init__"))
        for fld, frac in SP.EXP_FIELDS[cname].items():
            key = f"{cls.qual}.__init__#exp-term#{fld}"
            if fld not in obj.f:
                ck.fail("exp-term", key, at, f"field {fld} is not set by the constructor")
                continue
            ck.compare("exp-term", key, at, obj.f[fld], Tens(linop.shape, [alg.exp(DT * lam * frac)]))
        for fld, f in SP.COEFFICIENTS.get(cname, {}).items():
            key = f"{cls.qual}.__init__#coef-form#{fld}"
            n_coef += 1
            if fld not in obj.f:
                ck.fail("coef-form", key, at, f"field {fld} is not set by the constructor")
                continue
            ref = Tens(linop.shape, [SP.contour_coefficient(f, DT * lam, DT, M, R)])
            code = obj.f[fld]
            what = "coefficient differs from dt * contour mean of the closed form"
            if isinstance(code, Tens) and any(a[0] == "Re" for e in code.data for a in e.all_atoms()):
                what = "coefficient keeps only the REAL PART of the contour mean: wrong for a complex linear symbol (advection/dispersion)"
            zero_inds = _zero_symbol_indicators(code) if isinstance(code, Tens) else []
            if zero_inds:
                # the constructor distinguishes modes whose symbol is exactly zero: elsewhere the contour mean, there the
                # exact value of the closed form at z = 0 (its removable singularity), i.e. dt * f(0) from the power series
                lim = _limit_at_zero(f)
                off = Tens(code.shape, [alg.subs(e, {a: Poly() for a in zero_inds}) for e in code.data])
                on = Tens(code.shape, [alg.subs(alg.subs(e, {a: Poly.const(1) for a in zero_inds}), {LAM: Poly()}) for e in code.data])
                ck.compare("coef-form", key + "#symbol!=0", at, off, ref, what=what)
                ck.compare("coef-form", key + "#symbol==0", at, on, Tens(code.shape, [DT * Poly.const(lim)]), what=f"at a zero symbol the coefficient must be dt * f(0) = dt * {lim} (limit of the closed form)")
                continue
            ck.compare("coef-form", key, at, code, ref, what=what)
        # extra coefficient fields the spec does not know
        for fld in obj.f:
            if fld.startswith("_coef_") and fld not in SP.COEFFICIENTS.get(cname, {}):
                ck.fail("coef-form", f"{cls.qual}.__init__#coef-form#{fld}", at, f"unknown coefficient field {fld}")
        # ---- 3. stage formulas with the fields replaced by free symbols
        sym = Obj(cls)
        sym.f.update(obj.f)
        E = Poly.atom(("s", "E"))
        Eh = Poly.atom(("s", "Eh"))
        alg.COMPLEX_ATOMS.update({("s", "E"), ("s", "Eh")})
        c = {}
        sym.f["_exp_term"] = Tens(linop.shape, [E])
        if "_half_exp_term" in obj.f:
            sym.f["_half_exp_term"] = Tens(linop.shape, [Eh])
        for fld in SP.COEFFICIENTS.get(cname, {}):
            i = int(fld.split("_")[-1])
            c[i] = Poly.atom(("s", f"c{i}"))
            alg.COMPLEX_ATOMS.add(("s", f"c{i}"))
            sym.f[fld] = Tens(linop.shape, [c[i]])
        u = state_hat(2, 1, 0)
        sf = cls.find("step_fourier")
        if sf is None:
            raise AnalysisBroken(f"{cname}.step_fourier vanished")
        res = it.call(sf, [sym, u])
        u0 = u.data[0]

        def Nl(v):
            return Poly.atom(("fn", "Nl", 0, as_poly(v)))

        ref = SP.stages(n, u0, E, Eh, c, Nl)
        ck.compare("stage-form", f"{cls.qual}.step_fourier#stage-form", loc(sf), res, Tens(u.shape, [as_poly(ref)]))
    ck.floor("coefficient integrands", n_coef, 14)

    # ---- 4. order dispatch + constructor forwarding for every exported stepper
    it2 = new_interp(ck.repo, parity=0, stub_etdrk=True)
    steppers = catalog.exported_steppers(it2)
    ck.floor("exported steppers", len(steppers), 30)
    n_disp = 0
    base_init = catalog.base_stepper(it2).find("__init__")
    for pub, cls in steppers:
        pos, kw, pos_def, posann = catalog.init_params(cls)
        if "order" not in kw:
            continue
        dims, _ = catalog.allowed_dims(it2, cls)
        if not dims:
            raise AnalysisBroken(f"{pub} accepts no dimension")
        D = dims[0]
        probe = catalog.build(it2, cls, D)
        pint = probe.f.get("_integrator")
        if isinstance(pint, Obj) and pint.cls.name == "ETDRK0" and kw["order"][1] is not None and "order" not in [k.arg for k in _super_init_keywords(cls)]:
            # a *linear* stepper whose own `order` parameter is not the ETDRK order (it never reaches
            # BaseStepper: e.g. the derivative order of DifficultyLinearStepperSimple)
            ck.notes.append(f"{pub}: parameter `order` is not forwarded as ETDRK order (linear stepper), dispatch rule not applicable")
            continue
        for p in range(0, 5):
            key = f"{cls.qual}#dispatch#order={p}"
            try:
                o = catalog.build(it2, cls, D, order=p)
            except RepoRaise as e:
                ck.fail("dispatch", key, f"{e.file}:{getattr(e.node, 'lineno', '?')}", f"order={p} raises {e.exc_name}")
                continue
            integ = o.f.get("_integrator")
            at = loc(cls.find("__init__"))
            if not isinstance(integ, Obj):
                ck.fail("dispatch", key, at, "no integrator object stored in _integrator")
                continue
            n_disp += 1
            problems = []
            if integ.cls.name != f"ETDRK{p}":
                problems.append(f"order {p} builds {integ.cls.name}")
            if integ.f.get("arg_dt") != o.f.get("dt"):
                problems.append(f"integrator dt {integ.f.get('arg_dt')} is not the stepper's dt {o.f.get('dt')}")
            if p > 0:
                if integ.f.get("arg_num_circle_points") != M:
                    problems.append(f"num_circle_points not forwarded (got {integ.f.get('arg_num_circle_points')})")
                if integ.f.get("arg_circle_radius") != R:
                    problems.append(f"circle_radius not forwarded (got {integ.f.get('arg_circle_radius')})")
                if not isinstance(integ.f.get("arg_nonlinear_fun"), Obj):
                    problems.append("nonlinear function not forwarded")
            if problems:
                ck.fail("dispatch", key, at, "; ".join(problems))
            else:
                ck.ok("dispatch", key)
        key = f"{cls.qual}#dispatch#order=5"
        try:
            catalog.build(it2, cls, D, order=5)
            ck.fail("dispatch", key, loc(base_init), "order=5 is accepted")
        except RepoRaise as e:
            ck.ok("dispatch", key)
    ck.floor("dispatch rows", n_disp, 100)
    ck.extra["config_rows"] = n_disp
    ck.assumptions += [
        "jax.lax.scan is the left fold; jnp.exp/arithmetic have their mathematical meaning",
        "lambda, dt, M, r are free symbols: the comparison holds for every real or complex linear symbol",
        "rounding, overflow and the measured convergence order are NOT decided (DESIGN 4)",
    ]
    return ck.finish(
        explanation="Algebraic value numbering of exponax/etdrk: the constructors of ETDRK0-4 are interpreted with a symbolic complex linear symbol and an uninterpreted nonlinear function; every stored coefficient, exponential and the stage recursion are compared (normal-form identity in an exact Laurent-polynomial algebra) with the Cox-Matthews / Kassam-Trefethen formulas of specs/etdrk.py, whose table is itself validated by exact power series. The order dispatch and the forwarding of (order, num_circle_points, circle_radius, dt) are checked for every exported stepper.",
        rule_text="one program = (integrator class, field) or (class, step_fourier) or (stepper class, order); non-trivial = its canonical form is a non-constant expression; distinct = distinct canonical forms",
        trusted=["CPython ast", "vf/alg.py normal forms", "specs/etdrk.py (self-validated)", "semantics of jnp.exp, lax.scan, arithmetic"],
    )
