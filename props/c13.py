"""C13 - specific, generic, normalized and difficulty interfaces give the same dynamics (DESIGN 3, C13)."""

from __future__ import annotations

import itertools
from fractions import Fraction as Fr

from vf import alg, catalog
from vf import symops as SO
from vf.alg import Poly, as_poly
from vf.harness import Check, new_interp, N, L, DT, M, R, H_of, loc, AnalysisBroken, state_hat
from vf.interp import Obj, RepoRaise
from vf.tens import Tens

PROP = "C13"
LEVEL = "translation_validation"
S = Poly.sym
F = S("f")
Z = 0


def pairs(D):
    """(label, specific class, specific kwargs, generic class, generic kwargs) - documented special cases
    (docs/api/stepper/overview.md 'Concrete Special Cases' + class docstrings)"""
    c, nu, xi, mu, b = S("c"), S("nu"), S("xi"), S("mu"), S("b")
    out = []
    # NB: the generic symbol is sum_j a_j (1 . grad^j): the zeroth-order term is a_0 * (1 . 1) = a_0 * D, so a
    # reaction/drag coefficient r of a concrete stepper corresponds to a_0 = r / D (documented formula of
    # GeneralLinearStepper: "u_t = sum_j a_j (1 . nabla^j) u")
    out.append(("Advection", "Advection", {"velocity": c}, "GeneralLinearStepper", {"linear_coefficients": (Z, -c)}))
    out.append(("Diffusion", "Diffusion", {"diffusivity": nu}, "GeneralLinearStepper", {"linear_coefficients": (Z, Z, nu)}))
    out.append(("AdvectionDiffusion", "AdvectionDiffusion", {"velocity": c, "diffusivity": nu}, "GeneralLinearStepper", {"linear_coefficients": (Z, -c, nu)}))
    out.append(("Dispersion", "Dispersion", {"dispersivity": xi}, "GeneralLinearStepper", {"linear_coefficients": (Z, Z, Z, xi)}))
    out.append(("HyperDiffusion", "HyperDiffusion", {"hyper_diffusivity": mu}, "GeneralLinearStepper", {"linear_coefficients": (Z, Z, Z, Z, -mu)}))
    common = {"dealiasing_fraction": F, "num_circle_points": M, "circle_radius": R}
    for sc, cons in itertools.product((False, True), repeat=2):
        fl = {"single_channel": sc, "conservative": cons}
        out.append((f"Burgers{fl}", "Burgers", dict(diffusivity=nu, convection_scale=b, **fl, **common), "GeneralConvectionStepper", dict(linear_coefficients=(Z, Z, nu), convection_scale=b, **fl, **common)))
        out.append((f"KortewegDeVries{fl}", "KortewegDeVries", dict(diffusivity=nu, convection_scale=b, dispersivity=xi, hyper_diffusivity=mu, **fl, **common), "GeneralConvectionStepper", dict(linear_coefficients=(Z, Z, nu, -xi, -mu), convection_scale=b, **fl, **common)))
        out.append((f"KuramotoSivashinskyConservative{fl}", "KuramotoSivashinskyConservative", dict(convection_scale=b, second_order_scale=S("p1"), fourth_order_scale=S("p2"), **fl, **common), "GeneralConvectionStepper", dict(linear_coefficients=(Z, Z, -S("p1"), Z, -S("p2")), convection_scale=b, **fl, **common)))
    out.append(("KuramotoSivashinsky", "KuramotoSivashinsky", dict(gradient_norm_scale=b, second_order_scale=S("p1"), fourth_order_scale=S("p2"), **common), "GeneralGradientNormStepper", dict(linear_coefficients=(Z, Z, -S("p1"), Z, -S("p2")), gradient_norm_scale=b, **common)))
    r = S("r")
    out.append(("FisherKPP", "FisherKPP", dict(diffusivity=nu, reactivity=r, **common), "GeneralPolynomialStepper", dict(linear_coefficients=(r / D, Z, nu), polynomial_coefficients=(Z, Z, -r), **common)))
    c1, c3 = S("c1"), S("c3")
    out.append(("AllenCahn", "AllenCahn", dict(diffusivity=nu, first_order_coefficient=c1, third_order_coefficient=c3, **common), "GeneralPolynomialStepper", dict(linear_coefficients=(c1 / D, Z, nu), polynomial_coefficients=(Z, Z, Z, c3), **common)))
    if D == 1:
        k = S("k")
        g = (S("g0"), S("g1"), S("g2"), S("g3"))
        out.append(("SwiftHohenberg(1d)", "SwiftHohenberg", dict(reactivity=r, critical_number=k, polynomial_coefficients=g, **common), "GeneralPolynomialStepper", dict(linear_coefficients=(r - k * k, Z, -2 * k, Z, -1), polynomial_coefficients=g, **common)))
    if D == 2:
        lam = S("lam")
        out.append(("NavierStokesVorticity", "NavierStokesVorticity", dict(diffusivity=nu, vorticity_convection_scale=b, drag=lam, **common), "GeneralVorticityConvectionStepper", dict(linear_coefficients=(lam / D, Z, nu), vorticity_convection_scale=b, injection_scale=Z, **common)))
        out.append(("KolmogorovFlowVorticity", "KolmogorovFlowVorticity", dict(diffusivity=nu, convection_scale=b, drag=lam, injection_mode=S("kinj"), injection_scale=S("gam"), **common), "GeneralVorticityConvectionStepper", dict(linear_coefficients=(lam / D, Z, nu), vorticity_convection_scale=b, injection_mode=S("kinj"), injection_scale=S("gam"), **common)))
    return out


def documented_symbols(D):
    """linear part of every concrete semi-linear stepper as documented in its class docstring (all flag rows):
    (class, ctor kwargs, [symbol per operator channel] as function of the derivative symbols)"""
    nu, xi, ze, b = S("nu"), S("xi"), S("ze"), S("b")
    lap = lambda Dv: sum((d * d for d in Dv), Poly())
    quart = lambda Dv: sum((d**4 for d in Dv), Poly())
    out = [("Burgers", dict(diffusivity=nu), lambda Dv: [nu * lap(Dv)])]
    for adv, dif in itertools.product((False, True), repeat=2):
        def kdv(Dv, adv=adv, dif=dif):
            disp = -xi * sum(Dv, Poly()) * lap(Dv) if adv else -xi * sum((d**3 for d in Dv), Poly())
            hyp = -ze * lap(Dv) ** 2 if dif else -ze * quart(Dv)
            return [nu * lap(Dv) + disp + hyp]
        out.append(("KortewegDeVries", dict(diffusivity=nu, dispersivity=xi, hyper_diffusivity=ze, advect_over_diffuse=adv, diffuse_over_diffuse=dif), kdv))
    p1, p2 = S("p1"), S("p2")
    for nm in ("KuramotoSivashinsky", "KuramotoSivashinskyConservative"):
        out.append((nm, dict(second_order_scale=p1, fourth_order_scale=p2), lambda Dv: [-p1 * lap(Dv) - p2 * quart(Dv)]))
    lam = S("lam")
    if D == 2:
        for nm in ("NavierStokesVorticity", "KolmogorovFlowVorticity"):
            out.append((nm, dict(diffusivity=nu, drag=lam), lambda Dv: [nu * lap(Dv) + lam]))
    if D == 3:
        for nm in ("NavierStokesVelocity", "KolmogorovFlowVelocity"):
            out.append((nm, dict(diffusivity=nu, drag=lam), lambda Dv: [nu * lap(Dv) + lam]))
    r, c1, c3, g, k = S("r"), S("c1"), S("c3"), S("g"), S("k")
    out.append(("FisherKPP", dict(diffusivity=nu, reactivity=r), lambda Dv: [nu * lap(Dv) + r]))
    out.append(("AllenCahn", dict(diffusivity=nu, first_order_coefficient=c1), lambda Dv: [nu * lap(Dv) + c1]))
    out.append(("CahnHilliard", dict(diffusivity=nu, gamma=g, first_order_coefficient=c1), lambda Dv: [nu * lap(Dv) * (c1 - g * lap(Dv))]))
    out.append(("GrayScott", dict(diffusivity_1=S("n1"), diffusivity_2=S("n2")), lambda Dv: [S("n1") * lap(Dv), S("n2") * lap(Dv)]))
    out.append(("SwiftHohenberg", dict(reactivity=r, critical_number=k), lambda Dv: [r - (k + lap(Dv)) ** 2]))
    return out


FAMILIES = [
    # (General, Normalized, Difficulty, {general kw -> normalized kw}, {normalized kw -> (difficulty kw, extractor)}, flags)
    ("GeneralLinearStepper", "NormalizedLinearStepper", "DifficultyLinearStepper", {"linear_coefficients": "normalized_linear_coefficients"}, {"normalized_linear_coefficients": ("linear_difficulties", "lin")}),
    ("GeneralConvectionStepper", "NormalizedConvectionStepper", "DifficultyConvectionStepper", {"linear_coefficients": "normalized_linear_coefficients", "convection_scale": "normalized_convection_scale"}, {"normalized_linear_coefficients": ("linear_difficulties", "lin"), "normalized_convection_scale": ("convection_difficulty", "conv")}),
    ("GeneralGradientNormStepper", "NormalizedGradientNormStepper", "DifficultyGradientNormStepper", {"linear_coefficients": "normalized_linear_coefficients", "gradient_norm_scale": "normalized_gradient_norm_scale"}, {"normalized_linear_coefficients": ("linear_difficulties", "lin"), "normalized_gradient_norm_scale": ("gradient_norm_difficulty", "gn")}),
    ("GeneralPolynomialStepper", "NormalizedPolynomialStepper", "DifficultyPolynomialStepper", {"linear_coefficients": "normalized_linear_coefficients", "polynomial_coefficients": "normalized_polynomial_coefficients"}, {"normalized_linear_coefficients": ("linear_difficulties", "lin"), "normalized_polynomial_coefficients": ("polynomial_difficulties", "id")}),
    ("GeneralNonlinearStepper", "NormalizedNonlinearStepper", "DifficultyNonlinearStepper", {"linear_coefficients": "normalized_linear_coefficients", "nonlinear_coefficients": "normalized_nonlinear_coefficients"}, {"normalized_linear_coefficients": ("linear_difficulties", "lin"), "normalized_nonlinear_coefficients": ("nonlinear_difficulties", "nl")}),
]

MAXABS = S("maxabs")


def doc_extract(kind, val, D, Np):
    """documented difficulty -> normalized maps (generic/_utils.py docstrings):
    alpha_0 = gamma_0, alpha_j = gamma_j / (N^j 2^(j-1) D); beta_1 = delta_1/(M N D); beta_2 = delta_2/(M N^2 D)"""
    if kind == "lin":
        return tuple(as_poly(g) if j == 0 else as_poly(g) / (Np**j * Fr(2) ** (j - 1) * D) for j, g in enumerate(val))
    if kind == "conv":
        return as_poly(val) / (MAXABS * Np * D)
    if kind == "gn":
        return as_poly(val) / (MAXABS * Np**2 * D)
    if kind == "nl":
        return (as_poly(val[0]), as_poly(val[1]) / (MAXABS * Np * D), as_poly(val[2]) / (MAXABS * Np**2 * D))
    if kind == "id":
        return tuple(val)
    raise ValueError(kind)


def snapshot(f):
    Nl = None if f["N"] is None else list(f["N"].data)
    return (f["C"], as_poly(f["dt"]), f["L"], Nl, f["integrator"])


def run(tier="quick", only_key=None):
    ck = Check(PROP, LEVEL, tier, only_key)
    ck.rule("specific-vs-generic", "a concrete stepper and the generic stepper with the documented coefficient list have equal channel count, dt, linear symbol, nonlinear term (incl. mask) and integrator")
    ck.rule("linear-symbol-doc", "the linear part of every concrete semi-linear stepper equals its documented equation for every flag row (incl. the spatially mixing variants that have no generic equivalent)")
    ck.rule("normalized", "Normalized* == General* on (L=1, dt=1) with the coefficients passed through")
    ck.rule("difficulty", "Difficulty* == Normalized* after the documented extraction (num_spatial_dims, num_points, maximum_absolute forwarded)")
    ck.rule("conversion-formula", "normalize/denormalize/reduce/extract functions equal their documented formulas")
    ck.rule("conversion-inverse", "documented inverse pairs compose to the identity (both ways)")
    ck.rule("nondimensional", "General(L, dt, a, b) and Normalized(normalize(a), normalize(b)) have equal dt*symbol and dt*N(u): only the non-dimensional groups matter")
    ck.rule("general-nonlinear-sum", "GeneralNonlinearStepper's term is b0 u^2 + b1 1/2 (1.grad)u^2 + b2 1/2 |grad u|^2 = polynomial + convection(-b1) + gradient-norm(-b2)")
    rows = 0
    orders = (2,) if tier == "quick" else (1, 2, 3, 4)
    for parity in (0, 1):
        it = new_interp(ck.repo, parity=parity, stub_etdrk=True)
        it.ctx.region_strict = True  # value-range dependent construction contradicts the documented formula
        cl = {}
        for pub, c in catalog.exported_steppers(it):
            cl[c.name] = c

        def get(name):
            if name not in cl:
                raise AnalysisBroken(f"stepper {name} vanished from the exports")
            return cl[name]

        # ---- (a) specific vs generic
        for D in (1, 2, 3):
            for label, sn, skw, gn, gkw in pairs(D):
                sc, gc = get(sn), get(gn)
                for order in orders:
                    key = f"{sc.qual}~{gc.name}#D={D},Nparity={parity},{label}" + (f",order={order}" if len(orders) > 1 else "")
                    okw = {} if "order" not in catalog.init_params(sc)[1] else {"order": order}
                    try:
                        fs = catalog.stepper_forms(it, sc, D, parity, **skw, **okw)
                        fg = catalog.stepper_forms(it, gc, D, parity, **gkw, **({"order": order} if "order" in catalog.init_params(gc)[1] else {}))
                    except RepoRaise as e:
                        if e.exc_name == "ValueError" and sn in ("NavierStokesVorticity", "KolmogorovFlowVorticity"):
                            continue
                        ck.fail("specific-vs-generic", key, f"{e.file}:{getattr(e.node, 'lineno', '?')}", f"constructor raises {e.exc_name}")
                        continue
                    rows += 1
                    a, bb = snapshot(fs), snapshot(fg)
                    names = ["num_channels", "dt", "linear symbol", "nonlinear term", "integrator"]
                    diff = [n for n, x, y in zip(names, a, bb) if not _eq(x, y)]
                    if diff:
                        ck.fail("specific-vs-generic", key, loc(sc.find("__init__")), f"{sn} and {gn} with the documented coefficient map differ in: {', '.join(diff)}", code=str(a)[:3000], ref=str(bb)[:3000])
                    else:
                        ck.ok("specific-vs-generic", key, form=a)
        # ---- documented linear symbols of the concrete semi-linear steppers (all flag rows)
        from specs import common as C

        for D in (1, 2, 3):
            for nm, kw, sym in documented_symbols(D):
                cls_ = get(nm)
                key = f"{cls_.qual}#linear-symbol#D={D},Nparity={parity},{ {k_: v for k_, v in kw.items() if isinstance(v, bool)} }"
                try:
                    f = catalog.stepper_forms(it, cls_, D, parity, **kw)
                except RepoRaise as e:
                    ck.fail("linear-symbol-doc", key, f"{e.file}:{getattr(e.node, 'lineno', '?')}", f"constructor raises {e.exc_name}")
                    continue
                ref = [as_poly(x) for x in sym(C.deriv(D, L))]
                ck.compare("linear-symbol-doc", key, loc(cls_.find("_build_linear_operator")), list(f["L"].data), ref, what="linear symbol differs from the documented equation")
                rows += 1
        # ---- (b)(c)(e) families
        tuple_len = 5
        for gname, nname, dname, g2n, n2d in FAMILIES:
            G, Nn, Dd = get(gname), get(nname), get(dname)
            gflags = list(catalog.flag_rows(G)) or [{}]
            for D in (1, 2, 3):
                for fl in gflags:
                    gkw = catalog.symbolic_kwargs(G, tuple_len=tuple_len)
                    gkw.update(fl)
                    # normalized with the same symbols
                    nkw = {g2n.get(k, k): v for k, v in gkw.items()}
                    key = f"{Nn.qual}#normalized#D={D},Nparity={parity},{fl}"
                    try:
                        fn = catalog.stepper_forms(it, Nn, D, parity, **nkw)
                        fg1 = _forms_at(it, G, D, parity, 1, 1, gkw)
                    except RepoRaise as e:
                        ck.fail("normalized", key, f"{e.file}:{getattr(e.node, 'lineno', '?')}", f"constructor raises {e.exc_name}")
                        continue
                    rows += 1
                    o = fn["obj"]
                    probs = []
                    if as_poly(o.f.get("domain_extent")) != Poly.const(1):
                        probs.append(f"domain_extent={o.f.get('domain_extent')}")
                    if as_poly(o.f.get("dt")) != Poly.const(1):
                        probs.append(f"dt={o.f.get('dt')}")
                    if not all(_eq(x, y) for x, y in zip(snapshot(fn), snapshot(fg1))):
                        probs.append("forms differ from the general stepper on L=1, dt=1")
                    if probs:
                        ck.fail("normalized", key, loc(Nn.find("__init__")), "; ".join(probs), code=str(snapshot(fn))[:2000], ref=str(snapshot(fg1))[:2000])
                    else:
                        ck.ok("normalized", key, form=snapshot(fn))
                    # difficulty
                    dkw = {}
                    nref = dict(nkw)
                    for nk, v in nkw.items():
                        if nk in n2d:
                            dk, kind = n2d[nk]
                            dval = tuple(S(f"{dk}_{i}") for i in range(len(v))) if isinstance(v, tuple) else S(dk)
                            dkw[dk] = dval
                            nref[nk] = doc_extract(kind, dval, D, N)
                        else:
                            dkw[nk] = v
                    if "maximum_absolute" in catalog.init_params(Dd)[1]:
                        dkw["maximum_absolute"] = MAXABS
                    key = f"{Dd.qual}#difficulty#D={D},Nparity={parity},{fl}"
                    try:
                        fd = catalog.stepper_forms(it, Dd, D, parity, **dkw)
                        fr = catalog.stepper_forms(it, Nn, D, parity, **nref)
                    except RepoRaise as e:
                        ck.fail("difficulty", key, f"{e.file}:{getattr(e.node, 'lineno', '?')}", f"constructor raises {e.exc_name}")
                        continue
                    rows += 1
                    if all(_eq(x, y) for x, y in zip(snapshot(fd), snapshot(fr))):
                        ck.ok("difficulty", key, form=snapshot(fd))
                    else:
                        ck.fail("difficulty", key, loc(Dd.find("__init__")), "difficulty stepper differs from the normalized stepper with the documented extraction", code=str(snapshot(fd))[:2000], ref=str(snapshot(fr))[:2000])
                    # (e) non-dimensional groups
                    ut = it.module("exponax.stepper.generic._utils").env
                    nkw2 = dict(fl)
                    for k, v in gkw.items():
                        if k in fl:
                            continue
                        if k == "linear_coefficients":
                            nkw2[g2n[k]] = it.call(ut.get("normalize_coefficients"), [v], {"domain_extent": L, "dt": DT})
                        elif k == "convection_scale":
                            nkw2[g2n[k]] = it.call(ut.get("normalize_convection_scale"), [v], {"domain_extent": L, "dt": DT})
                        elif k == "gradient_norm_scale":
                            nkw2[g2n[k]] = it.call(ut.get("normalize_gradient_norm_scale"), [v], {"domain_extent": L, "dt": DT})
                        elif k == "polynomial_coefficients":
                            nkw2[g2n[k]] = it.call(ut.get("normalize_polynomial_scales"), [v], {"domain_extent": L, "dt": DT})
                        elif k == "nonlinear_coefficients":
                            nkw2[g2n[k]] = (v[0] * DT, it.call(ut.get("normalize_convection_scale"), [v[1]], {"domain_extent": L, "dt": DT}), it.call(ut.get("normalize_gradient_norm_scale"), [v[2]], {"domain_extent": L, "dt": DT}))
                        else:
                            nkw2[k] = v
                    key = f"{G.qual}#nondimensional#D={D},Nparity={parity},{fl}"
                    fgen = catalog.stepper_forms(it, G, D, parity, **gkw)
                    fnor = catalog.stepper_forms(it, Nn, D, parity, **nkw2)
                    lhs = ([DT * e for e in fgen["L"].data], None if fgen["N"] is None else [DT * e for e in fgen["N"].data])
                    rhs = (list(fnor["L"].data), None if fnor["N"] is None else list(fnor["N"].data))
                    ck.compare("nondimensional", key, loc(G.find("_build_linear_operator")), lhs, rhs, what="dt*symbol / dt*N(u) of the physical stepper differ from the normalized stepper built from the non-dimensional groups")
                    rows += 1
        # ---- general nonlinear = sum of parts
        G = get("GeneralNonlinearStepper")
        for D in (1, 2, 3):
            a = tuple(S(f"a{i}") for i in range(5))
            b0, b1, b2 = S("b0"), S("b1"), S("b2")
            common = {"dealiasing_fraction": F, "num_circle_points": M, "circle_radius": R, "linear_coefficients": a}
            fN = catalog.stepper_forms(it, G, D, parity, nonlinear_coefficients=(b0, b1, b2), **common)
            fP = catalog.stepper_forms(it, get("GeneralPolynomialStepper"), D, parity, polynomial_coefficients=(Z, Z, b0), **common)
            fC = catalog.stepper_forms(it, get("GeneralConvectionStepper"), D, parity, convection_scale=-b1, single_channel=True, conservative=True, **common)
            fG = catalog.stepper_forms(it, get("GeneralGradientNormStepper"), D, parity, gradient_norm_scale=-b2, **common)
            key = f"{G.qual}#sum-of-parts#D={D},Nparity={parity}"
            ck.compare("general-nonlinear-sum", key, loc(G.find("_build_nonlinear_fun")), (fN["L"], fN["N"].data[0]), (fP["L"], fP["N"].data[0] + fC["N"].data[0] + fG["N"].data[0]))
            rows += 1
    # ---- (d) conversion functions
    it = new_interp(ck.repo, parity=0)
    it.ctx.region_strict = True  # value-range dependent construction contradicts the documented formula
    ut = it.module("exponax.stepper.generic._utils").env
    gm = it.module("exponax.stepper.generic")
    exported = dict(catalog.all_list(it, "exponax.stepper.generic"))
    n7 = 7
    a = tuple(S(f"a{i}") for i in range(n7))
    D_ = S("D")
    convs = {
        "normalize_coefficients": (([a], {"domain_extent": L, "dt": DT}), tuple(a[j] * DT / L**j for j in range(n7))),
        "denormalize_coefficients": (([a], {"domain_extent": L, "dt": DT}), tuple(a[j] / DT * L**j for j in range(n7))),
        "normalize_convection_scale": (([S("b")], {"domain_extent": L, "dt": DT}), S("b") * DT / L),
        "denormalize_convection_scale": (([S("b")], {"domain_extent": L, "dt": DT}), S("b") / DT * L),
        "normalize_gradient_norm_scale": (([S("b")], {"domain_extent": L, "dt": DT}), S("b") * DT / L**2),
        "denormalize_gradient_norm_scale": (([S("b")], {"domain_extent": L, "dt": DT}), S("b") / DT * L**2),
        "normalize_polynomial_scales": (([a], {"domain_extent": L, "dt": DT}), tuple(x * DT for x in a)),
        "denormalize_polynomial_scales": (([a], {"domain_extent": L, "dt": DT}), tuple(x / DT for x in a)),
        "reduce_normalized_coefficients_to_difficulty": (([a], {"num_spatial_dims": D_, "num_points": N}), tuple(a[j] if j == 0 else a[j] * N**j * Fr(2) ** (j - 1) * D_ for j in range(n7))),
        "extract_normalized_coefficients_from_difficulty": (([a], {"num_spatial_dims": D_, "num_points": N}), tuple(a[j] if j == 0 else a[j] / (N**j * Fr(2) ** (j - 1) * D_) for j in range(n7))),
        "reduce_normalized_convection_scale_to_difficulty": (([S("b")], {"num_spatial_dims": D_, "num_points": N, "maximum_absolute": MAXABS}), S("b") * MAXABS * N * D_),
        "extract_normalized_convection_scale_from_difficulty": (([S("b")], {"num_spatial_dims": D_, "num_points": N, "maximum_absolute": MAXABS}), S("b") / (MAXABS * N * D_)),
        "reduce_normalized_gradient_norm_scale_to_difficulty": (([S("b")], {"num_spatial_dims": D_, "num_points": N, "maximum_absolute": MAXABS}), S("b") * MAXABS * N**2 * D_),
        "extract_normalized_gradient_norm_scale_from_difficulty": (([S("b")], {"num_spatial_dims": D_, "num_points": N, "maximum_absolute": MAXABS}), S("b") / (MAXABS * N**2 * D_)),
    }
    b3 = (S("b0"), S("b1"), S("b2"))
    convs_private = {
        "reduce_normalized_nonlinear_scales_to_difficulty": (([b3], {"num_spatial_dims": D_, "num_points": N, "maximum_absolute": MAXABS}), (b3[0], b3[1] * MAXABS * N * D_, b3[2] * MAXABS * N**2 * D_)),
        "extract_normalized_nonlinear_scales_from_difficulty": (([b3], {"num_spatial_dims": D_, "num_points": N, "maximum_absolute": MAXABS}), (b3[0], b3[1] / (MAXABS * N * D_), b3[2] / (MAXABS * N**2 * D_))),
    }
    nconv = 0
    for name, ((args, kw), ref) in list(convs.items()) + list(convs_private.items()):
        try:
            fn = ut.get(name)
        except KeyError:
            raise AnalysisBroken(f"conversion function {name} vanished")
        if name in convs and name not in exported:
            ck.fail("conversion-formula", f"exponax.stepper.generic.{name}#exported", loc(fn), "function is no longer exported")
        res = it.call(fn, args, kw)
        res_t = tuple(as_poly(x) for x in res) if isinstance(res, (tuple, list)) else as_poly(res)
        ref_t = tuple(as_poly(x) for x in ref) if isinstance(ref, tuple) else as_poly(ref)
        ck.compare("conversion-formula", f"exponax.stepper.generic._utils.{name}", loc(fn), res_t, ref_t)
        nconv += 1
    inverse_pairs = [
        ("normalize_coefficients", "denormalize_coefficients"),
        ("normalize_convection_scale", "denormalize_convection_scale"),
        ("normalize_gradient_norm_scale", "denormalize_gradient_norm_scale"),
        ("normalize_polynomial_scales", "denormalize_polynomial_scales"),
        ("reduce_normalized_coefficients_to_difficulty", "extract_normalized_coefficients_from_difficulty"),
        ("reduce_normalized_convection_scale_to_difficulty", "extract_normalized_convection_scale_from_difficulty"),
        ("reduce_normalized_gradient_norm_scale_to_difficulty", "extract_normalized_gradient_norm_scale_from_difficulty"),
        ("reduce_normalized_nonlinear_scales_to_difficulty", "extract_normalized_nonlinear_scales_from_difficulty"),
    ]
    allc = dict(convs)
    allc.update(convs_private)
    for f1, f2 in inverse_pairs:
        for x, y in ((f1, f2), (f2, f1)):
            (args, kw), _ = allc[x]
            mid = it.call(ut.get(x), args, kw)
            back = it.call(ut.get(y), [mid], kw)
            orig = args[0]
            bt = tuple(as_poly(v) for v in back) if isinstance(back, (tuple, list)) else as_poly(back)
            ot = tuple(as_poly(v) for v in orig) if isinstance(orig, (tuple, list)) else as_poly(orig)
            ck.compare("conversion-inverse", f"exponax.stepper.generic._utils.{y}({x}(.))", loc(ut.get(y)), bt, ot)
    ck.floor("conversion functions", nconv, 16)
    ck.floor("stepper rows", rows, 250)
    ck.extra["config_rows"] = rows
    ck.assumptions += ["float tolerance of comparing two steppers numerically is not decided", "coefficient maps transcribed from the class docstrings and docs/api/stepper/overview.md"]
    return ck.finish(
        explanation="For every documented (specific, generic) pair, every General/Normalized/Difficulty family, D in {1,2,3}, N even/odd and all flag rows both constructors are interpreted symbolically; channel count, dt, canonical linear symbol, canonical nonlinear term (with mask) and integrator class must coincide. The 16 conversion functions are compared with their docstring formulas on symbolic tuples of length 7 and the 8 inverse pairs must compose to the identity. dt*symbol and dt*N(u) of General(L,dt,a,b) must equal those of Normalized(normalize(a), normalize(b)).",
        rule_text="one program = (pair or family member, D, parity, flag row[, order]); distinct = distinct canonical snapshots",
        trusted=["CPython ast", "vf normal forms", "documented coefficient maps"],
    )


def _forms_at(it, cls, D, parity, Lval, dtval, kw):
    from vf.harness import state_hat as sh

    o = it.call(cls, [D, Lval, N, dtval], kw)
    integ = o.f["_integrator"]
    nf = integ.f.get("arg_nonlinear_fun")
    C = o.f.get("num_channels")
    out = it.call(nf, [sh(D, C, parity)]) if nf is not None else None
    return {"obj": o, "L": integ.f.get("arg_linear_operator"), "N": out, "C": C, "integrator": integ.cls.name, "dt": o.f.get("dt")}


def _eq(x, y):
    from vf.harness import _same

    if x is None or y is None:
        return x is y
    return _same(x, y)
